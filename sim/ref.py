"""Reference model of uncertainty sets: closed-form support functions.  No RSOME import.

A *set* is a list of blocks.  A block constrains the components `idx` (list of ints into the flat
random vector named `z`) and comes from one family:

  box     lo <= z_I <= hi                                 (Bounds, two-sided)
  absbox  |z_I - c| <= w        (convex 'A' rows)         same set as box c +- w
  n1      || (z_I - c) / w ||_1   <= r
  n2      || (z_I - c) / w ||_2   <= r
  ninf    || (z_I - c) / w ||_inf <= r
  pn      || (z_I - c) / w ||_p   <= r, p = int or [a, b]   (SOC tower, xtype 'G')
  pnx     same with float p                                  (exp cones, xtype 'N')
  ssq     sumsqr((z_I - c) / w) <= r^2
  ell     || Linv (z_I - c) ||_2 <= r
  budget  ||(z_I - c)/w||_inf <= 1  and  ||(z_I - c)/w||_1 <= gamma
  pow     power(z_i - c_i, p) <= r  element-wise  ->  |z_i - c_i| <= r^(1/p)   (xtype 'T')
  poly    box lo..hi intersected with rows A z_I <= b (support function by scipy linprog, direct)

`support(set, a)` = max { a.z : z in set } where `a` is a dense vector over the whole flat z.
Every component with a nonzero coefficient must be covered by exactly one block.
"""
import numpy as np


def _q(p):
    p = p[0] / p[1] if isinstance(p, (list, tuple)) else float(p)
    return p / (p - 1.0)


def block_support(b, a):
    I = b['idx']
    aI = np.asarray(a, dtype=float)[I]
    fam = b['fam']
    if fam == 'box':
        lo, hi = np.asarray(b['lo'], float), np.asarray(b['hi'], float)
        return float(np.sum(np.maximum(aI * lo, aI * hi)))
    c = np.asarray(b.get('c', np.zeros(len(I))), float)
    w = np.asarray(b.get('w', np.ones(len(I))), float)
    base = float(aI @ c)
    aw = aI * w
    if fam == 'absbox':
        return base + float(np.sum(np.abs(aw)))
    if fam == 'n1':
        return base + b['r'] * float(np.max(np.abs(aw)))
    if fam in ('n2', 'ssq'):
        return base + b['r'] * float(np.sqrt(np.sum(aw ** 2)))
    if fam == 'ninf':
        return base + b['r'] * float(np.sum(np.abs(aw)))
    if fam in ('pn', 'pnx'):
        q = _q(b['p'])
        return base + b['r'] * float(np.sum(np.abs(aw) ** q) ** (1.0 / q))
    if fam == 'ell':
        L = np.linalg.inv(np.asarray(b['Linv'], float))
        return base + b['r'] * float(np.linalg.norm(L.T @ aI))
    if fam == 'budget':
        s = np.sort(np.abs(aw))[::-1]
        g = float(b['gamma'])
        k = int(np.floor(g))
        val = float(np.sum(s[:k]))
        if k < len(s):
            val += (g - k) * float(s[k])
        return base + val
    if fam == 'pow':
        rad = float(b['r']) ** (1.0 / (b['p'] / b.get('q', 1)))
        return base + rad * float(np.sum(np.abs(aI)))
    if fam == 'poly':
        from scipy.optimize import linprog
        from . import world
        lp = world.REAL.get('linprog', linprog)
        lo, hi = np.asarray(b['lo'], float), np.asarray(b['hi'], float)
        res = lp(-aI, A_ub=np.asarray(b['A'], float), b_ub=np.asarray(b['b'], float),
                 bounds=list(zip(lo, hi)))
        if res.status != 0:
            raise RuntimeError('reference LP failed')
        return float(-res.fun)
    raise ValueError(fam)


def support(blocks, a):
    """blocks: list of block dicts (each with 'z': array name, 'idx'); a: dict name -> vector."""
    a = {k: np.asarray(v, dtype=float).reshape(-1) for k, v in a.items()}
    covered = {k: np.zeros(len(v), bool) for k, v in a.items()}
    total = 0.0
    for b in blocks:
        zn = b['z']
        if zn not in a:
            continue
        I = b['idx']
        if covered[zn][I].any():
            raise ValueError('blocks overlap')
        covered[zn][I] = True
        total += block_support(b, a[zn])
    for k in a:
        if np.any((a[k] != 0) & ~covered[k]):
            raise ValueError('uncovered component with nonzero coefficient')
    return total


# ---- block -> list of constraint ASTs on the random variable `zname` -------------------------

def _sel(zname, I, n):
    if list(I) == list(range(n)):
        return ['v', zname]
    if list(I) == list(range(I[0], I[0] + len(I))):
        return ['i', ['v', zname], [I[0], I[0] + len(I)]]
    return ['i', ['v', zname], {'l': list(I)}]


def _centered(zname, b, n):
    I = b['idx']
    e = _sel(zname, I, n)
    c = b.get('c')
    w = b.get('w')
    if c is not None and any(c):
        e = ['-', e, ['c', list(c)]]
    if w is not None and any(x != 1 for x in w):
        e = ['*', e, ['c', [1.0 / x for x in w]]]
    return e


def block_constraints(zname, b, n):
    """Constraint ASTs that define block `b` on random vector `zname` of length n."""
    fam = b['fam']
    I = b['idx']
    if fam == 'box':
        z = _sel(zname, I, n)
        if b.get('form') == 'scalar':
            out = []
            for j, i in enumerate(I):
                out += [['>=', ['i', ['v', zname], i], ['c', float(b['lo'][j])]], ['<=', ['i', ['v', zname], i], ['c', float(b['hi'][j])]]]
        else:
            out = [['>=', z, ['c', list(b['lo'])]], ['<=', z, ['c', list(b['hi'])]]]
        dup = b.get('dup')
        if dup:
            # the same components bounded once more, more loosely (the set is unchanged)
            extra = []
            if 'U' in dup['sides']:
                extra.append(['<=', z, ['c', [round(v + dup['slack'], 4) for v in b['hi']]]])
            if 'L' in dup['sides']:
                extra.append(['>=', z, ['c', [round(v - dup['slack'], 4) for v in b['lo']]]])
            out = out + extra if dup['pos'] == 'after' else extra + out
        return out
    if fam == 'absbox':
        z = _sel(zname, I, n)
        c = b.get('c')
        e = ['-', z, ['c', list(c)]] if c is not None and any(c) else z
        return [['<=', ['f', 'abs', e], ['c', list(b.get('w', [1.0] * len(I)))]]]
    e = _centered(zname, b, n)
    if fam == 'n1':
        return [['<=', ['norm', e, 1], ['c', b['r']]]]
    if fam == 'n2':
        return [['<=', ['norm', e, 2], ['c', b['r']]]]
    if fam == 'ninf':
        return [['<=', ['norm', e, 'inf'], ['c', b['r']]]]
    if fam == 'pn':
        return [['<=', ['pnorm', e, b['p'], 'soc'], ['c', b['r']]]]
    if fam == 'pnx':
        return [['<=', ['pnorm', e, float(b['p']), 'exc'], ['c', b['r']]]]
    if fam == 'ssq':
        return [['<=', ['f', 'sumsqr', e], ['c', b['r'] ** 2]]]
    if fam == 'ell':
        z = _sel(zname, I, n)
        c = b.get('c')
        zc = ['-', z, ['c', list(c)]] if c is not None and any(c) else z
        return [['<=', ['norm', ['@', ['c', b['Linv']], zc], 2], ['c', b['r']]]]
    if fam == 'budget':
        return [['<=', ['norm', e, 'inf'], ['c', 1.0]], ['<=', ['norm', e, 1], ['c', b['gamma']]]]
    if fam == 'pow':
        z = _sel(zname, I, n)
        c = b.get('c')
        zc = ['-', z, ['c', list(c)]] if c is not None and any(c) else z
        return [['<=', ['f', 'power', zc, b['p'], b.get('q', 1)], ['c', b['r']]]]
    if fam == 'poly':
        z = _sel(zname, I, n)
        return [['>=', z, ['c', list(b['lo'])]], ['<=', z, ['c', list(b['hi'])]],
                ['<=', ['@', ['c', b['A']], z], ['c', list(b['b'])]]]
    raise ValueError(fam)


def set_constraints(blocks, sizes):
    """blocks with 'z' names; sizes: dict array name -> length."""
    out = []
    for b in blocks:
        out.extend(block_constraints(b['z'], b, sizes[b['z']]))
    return out


IPC_FAMS = ('pn', 'pow')      # families whose atoms land in socp.Model.ip_constr


def cone_class(blocks):
    """'lp' | 'soc' | 'exp' : what the dualised support needs from the engine."""
    k = 'lp'
    for b in blocks:
        if b['fam'] == 'pnx':
            return 'exp'
        if b['fam'] in ('n2', 'ssq', 'ell', 'pn', 'pow'):
            k = 'soc'
    return k


# ---- probability sets and worst-case expectations -----------------------------------------------

def prob_constraints(pname, P):
    """constraint ASTs on the probability vector `pname` for probability-set spec P"""
    phat = list(P['phat'])
    k = P['kind']
    p = ['v', pname]
    if k == 'fixed':
        return [['==', p, ['c', phat]]]
    if k == 'box':
        d = P['d']
        return [['>=', p, ['c', [max(0.0, round(v - d, 6)) for v in phat]]], ['<=', p, ['c', [round(v + d, 6) for v in phat]]]]
    if k == 'l1':
        return [['<=', ['norm', ['-', p, ['c', phat]], 1], ['c', P['theta']]]]
    if k == 'linf':
        return [['<=', ['norm', ['-', p, ['c', phat]], 'inf'], ['c', P['d']]]]
    if k == 'kl':
        return [['kl', p, phat, P['r']]]
    raise ValueError(k)


def worst_case_expectation(P, deltas):
    """max over p in P (and the simplex) of sum_s p_s * deltas[s]; direct LP, no RSOME."""
    from scipy.optimize import linprog
    from . import world
    lp = world.REAL.get('linprog', linprog)
    d = np.asarray(deltas, float)
    S = len(d)
    phat = np.asarray(P['phat'], float)
    k = P['kind']
    if k == 'fixed':
        return float(phat @ d)
    if k in ('box', 'linf'):
        lo = np.maximum(0.0, phat - P['d'])
        hi = phat + P['d']
        if k == 'box':
            lo = np.array([max(0.0, round(v - P['d'], 6)) for v in phat])
            hi = np.array([round(v + P['d'], 6) for v in phat])
        res = lp(-d, A_eq=np.ones((1, S)), b_eq=[1.0], bounds=list(zip(lo, hi)))
        if res.status != 0:
            raise RuntimeError('reference LP failed')
        return float(-res.fun)
    if k == 'l1':
        # variables p (S), t (S): |p - phat| <= t, sum t <= theta, sum p = 1, p >= 0
        c = np.concatenate([-d, np.zeros(S)])
        A, b = [], []
        for s in range(S):
            r1 = np.zeros(2 * S); r1[s] = 1; r1[S + s] = -1; A.append(r1); b.append(phat[s])
            r2 = np.zeros(2 * S); r2[s] = -1; r2[S + s] = -1; A.append(r2); b.append(-phat[s])
        r3 = np.zeros(2 * S); r3[S:] = 1; A.append(r3); b.append(P['theta'])
        Aeq = np.zeros((1, 2 * S)); Aeq[0, :S] = 1
        res = lp(c, A_ub=np.array(A), b_ub=np.array(b), A_eq=Aeq, b_eq=[1.0], bounds=[(0, None)] * (2 * S))
        if res.status != 0:
            raise RuntimeError('reference LP failed')
        return float(-res.fun)
    raise ValueError('no reference for probability set kind %s' % k)


def box_of(blocks, n):
    """(lo, hi) of a set made of 'box' / 'absbox' blocks covering one array of length n"""
    lo, hi = np.full(n, np.nan), np.full(n, np.nan)
    for b in blocks:
        I = b['idx']
        if b['fam'] == 'box':
            lo[I], hi[I] = b['lo'], b['hi']
        elif b['fam'] == 'absbox':
            c = np.asarray(b.get('c', np.zeros(len(I))), float)
            w = np.asarray(b.get('w', np.ones(len(I))), float)
            lo[I], hi[I] = c - w, c + w
        else:
            raise ValueError('not a box family: ' + b['fam'])
    return lo, hi


def worst_case_expectation_moments(P, boxes, a, moments, vconst=None, balls=None):
    """sup over distributions of E[a.z] with scenario probabilities p in P, z | s supported on the box boxes[s] = (lo, hi),
    and for each (event, mlo, mhi) in `moments`: E[z | s in event] in [mlo, mhi].  Direct LP in (p, nu_s = p_s E[z|s])."""
    from scipy.optimize import linprog
    from . import world
    lp = world.REAL.get('linprog', linprog)
    a = np.asarray(a, float)
    S, n = len(boxes), len(a)
    phat = np.asarray(P['phat'], float)
    k = P['kind']
    nt = S if k == 'l1' else 0
    N = S + S * n + nt

    def pv(s):
        return s

    def nv(s, i):
        return S + s * n + i
    c = np.zeros(N)
    for s in range(S):
        for i in range(n):
            c[nv(s, i)] = -a[i]
        if vconst is not None:
            c[pv(s)] = -float(vconst[s])        # plus a scenario-dependent constant v_s (event-wise decisions)
    A, b, Aeq, beq = [], [], [], []
    bounds = [(0, None)] * S + [(None, None)] * (S * n) + [(0, None)] * nt
    r = np.zeros(N); r[:S] = 1; Aeq.append(r); beq.append(1.0)
    if k == 'fixed':
        for s in range(S):
            bounds[s] = (phat[s], phat[s])
    elif k == 'box':
        for s in range(S):
            bounds[s] = (max(0.0, round(phat[s] - P['d'], 6)), round(phat[s] + P['d'], 6))
    elif k == 'linf':
        for s in range(S):
            bounds[s] = (max(0.0, phat[s] - P['d']), phat[s] + P['d'])
    elif k == 'l1':
        for s in range(S):
            r1 = np.zeros(N); r1[s] = 1; r1[S + S * n + s] = -1; A.append(r1); b.append(phat[s])
            r2 = np.zeros(N); r2[s] = -1; r2[S + S * n + s] = -1; A.append(r2); b.append(-phat[s])
        r3 = np.zeros(N); r3[S + S * n:] = 1; A.append(r3); b.append(P['theta'])
    else:
        raise ValueError(k)
    for s in range(S):
        lo, hi = boxes[s]
        for i in range(n):
            r1 = np.zeros(N); r1[nv(s, i)] = 1; r1[pv(s)] = -hi[i]; A.append(r1); b.append(0.0)
            r2 = np.zeros(N); r2[nv(s, i)] = -1; r2[pv(s)] = lo[i]; A.append(r2); b.append(0.0)
    for ev, mlo, mhi in moments:
        for i in range(n):
            if mhi[i] is not None:
                r1 = np.zeros(N)
                for s in ev:
                    r1[nv(s, i)] = 1; r1[pv(s)] = -mhi[i]
                A.append(r1); b.append(0.0)
            if mlo[i] is not None:
                r2 = np.zeros(N)
                for s in ev:
                    r2[nv(s, i)] = -1; r2[pv(s)] = mlo[i]
                A.append(r2); b.append(0.0)
    if balls:
        # second-order-cone mean sets ||E[z_I | s in event] - ctr||_2 <= rad: the same program as a conic one, handed to ECOS
        # directly (no RSOME involved): rows  rad * sum_ev p_s >= || sum_ev nu_{s,I} - ctr * sum_ev p_s ||_2
        import scipy.sparse as sp
        ecos_solve = world.REAL.get('ecos')
        if ecos_solve is None:
            import ecos
            ecos_solve = ecos.solve
        G = [np.array(A)] if A else []
        h = [np.array(b, float)] if A else []
        for j, (lo_, hi_) in enumerate(bounds):
            if lo_ is not None:
                r_ = np.zeros((1, N)); r_[0, j] = -1; G.append(r_); h.append(np.array([-float(lo_)]))
            if hi_ is not None:
                r_ = np.zeros((1, N)); r_[0, j] = 1; G.append(r_); h.append(np.array([float(hi_)]))
        nl = sum(g.shape[0] for g in G)
        q = []
        for ev, I, ctr, rad in balls:
            blk = np.zeros((1 + len(I), N))
            for s in ev:
                blk[0, pv(s)] = -rad
                for k_, i in enumerate(I):
                    blk[1 + k_, nv(s, i)] = -1.0
                    blk[1 + k_, pv(s)] = ctr[k_]
            G.append(blk); h.append(np.zeros(1 + len(I))); q.append(1 + len(I))
        sol = ecos_solve(c, sp.csc_matrix(np.vstack(G)), np.concatenate(h), {'l': nl, 'q': q, 'e': 0},
                         sp.csc_matrix(np.array(Aeq)), np.array(beq, float), verbose=False, abstol=1e-10, reltol=1e-10, feastol=1e-10)
        if sol['info']['exitFlag'] not in (0, 10):
            raise RuntimeError('reference moment SOCP failed: exit flag %s' % sol['info']['exitFlag'])
        return float(-sol['info']['pcost'])
    res = lp(c, A_ub=np.array(A), b_ub=np.array(b), A_eq=np.array(Aeq), b_eq=np.array(beq), bounds=bounds)
    if res.status != 0:
        raise RuntimeError('reference moment LP failed: status %s' % res.status)
    return float(-res.fun)
