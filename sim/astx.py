"""Expression / constraint AST shared by every machine.  Pure JSON (lists, numbers, strings).

  ["v", name]                 object from the environment (variable, rule, ...)
  ["i", e, idx]               e[idx]; idx = int | [start, stop] | {"l": [ints]} | {"t": [idx, idx]}
  ["c", value]                numeric constant (number or nested list)
  ["+", e1, e2] ["-", e1, e2] ["neg", e]
  ["*", e1, e2]               element-wise product (one side numeric, or decision x random)
  ["@", e1, e2]               matrix product
  ["sum", e]
  ["f", fname, e, *params]    rsome math function: abs square sumsqr exp log entropy softplus ...
  ["norm", e, p] / ["pnorm", e, p, method]
  ["E", e]  ["maxof", e...]  ["minof", e...]
  ["<=", l, r] [">=", l, r] ["==", l, r]
  ["kl", e, phat, r]          rso.kldiv
  ["expcone", y, x, z]        rso.expcone
"""
import numpy as np


def _idx(spec):
    if isinstance(spec, bool):
        raise TypeError(spec)
    if isinstance(spec, int):
        return spec
    if isinstance(spec, list):
        a, b = spec
        return slice(a, b)
    if isinstance(spec, dict):
        if 'l' in spec:
            return list(spec['l'])
        if 't' in spec:
            return tuple(_idx(s) for s in spec['t'])
        if 'all' in spec:
            return slice(None)
        if 's' in spec:
            return slice(*spec['s'])
    raise TypeError('bad index spec %r' % (spec,))


def const(v):
    if isinstance(v, (int, float)):
        return v
    return np.array(v, dtype=float)


class Builder:
    """AST -> RSOME objects.  `env` maps names to live objects, `rso` is the rsome package."""

    def __init__(self, rso, env, hooks=None):
        self.rso = rso
        self.env = env
        self.hooks = hooks or {}

    def ev(self, e):
        rso = self.rso
        t = e[0]
        if t == 'v':
            return self.env[e[1]]
        if t == 'c':
            v = const(e[1])
            h = self.hooks.get('const')
            return h(v) if h else v
        if t == 'i':
            return self.ev(e[1])[_idx(e[2])]
        if t == '+':
            return self.ev(e[1]) + self.ev(e[2])
        if t == '-':
            return self.ev(e[1]) - self.ev(e[2])
        if t == 'neg':
            return -self.ev(e[1])
        if t == '*':
            return self.ev(e[1]) * self.ev(e[2])
        if t == '@':
            h = self.hooks.get('matmul_left')
            if h is not None and e[1][0] == 'c':
                # the constant left operand of a matrix product may be handed over in another container (scipy sparse)
                return h(const(e[1][1])) @ self.ev(e[2])
            return self.ev(e[1]) @ self.ev(e[2])
        if t == 'sum':
            return self.ev(e[1]).sum()
        if t == 'T':
            return self.ev(e[1]).T
        if t == 'E':
            return rso.E(self.ev(e[1]))
        if t == 'maxof':
            return rso.maxof(*[self.ev(x) for x in e[1:]])
        if t == 'minof':
            return rso.minof(*[self.ev(x) for x in e[1:]])
        if t == 'norm':
            p = e[2]
            p = np.inf if p == 'inf' else (tuple(p) if isinstance(p, list) else p)
            return rso.norm(self.ev(e[1]), p)
        if t == 'pnorm':
            p = e[2]
            p = tuple(p) if isinstance(p, list) else p
            return rso.pnorm(self.ev(e[1]), p, e[3] if len(e) > 3 else None)
        if t == 'f':
            if e[1] == 'abs':
                return abs(self.ev(e[2]))
            fn = getattr(rso, e[1])
            args = [self.ev(e[2])]
            for p in e[3:]:
                args.append(self.ev(p) if isinstance(p, list) and p and isinstance(p[0], str)
                            else p)
            return fn(*args)
        if t == 'kl':
            v = const(e[2])
            h = self.hooks.get('const')
            return rso.kldiv(self.ev(e[1]), h(v) if h else v, e[3])
        if t == 'expcone':
            return rso.expcone(self.ev(e[1]), self.ev(e[2]), self.ev(e[3]))
        if t == 'quad':
            v = const(e[2])
            h = self.hooks.get('const')
            return rso.quad(self.ev(e[1]), h(v) if h else v)
        if t == 'concat':
            return rso.concat(tuple(self.ev(x) for x in e[1:]))
        if t == 'vec':
            return rso.vec(*[self.ev(x) for x in e[1:]])
        if t == 'rstack':
            return rso.rstack(*[self.ev(x) for x in e[1:]])
        if t == 'cstack':
            return rso.cstack(*[self.ev(x) for x in e[1:]])
        if t == '<=':
            return self.ev(e[1]) <= self.ev(e[2])
        if t == '>=':
            return self.ev(e[1]) >= self.ev(e[2])
        if t == '==':
            return self.ev(e[1]) == self.ev(e[2])
        raise ValueError('unknown AST node %r' % (t,))


def evalnum(e, val):
    """AST -> numpy value given `val`: name -> numpy array (decisions and random variables)."""
    t = e[0]
    if t == 'v':
        return np.asarray(val[e[1]], dtype=float)
    if t == 'c':
        return np.asarray(const(e[1]), dtype=float)
    if t == 'i':
        return np.asarray(evalnum(e[1], val))[_idx(e[2])]
    if t == '+':
        return evalnum(e[1], val) + evalnum(e[2], val)
    if t == '-':
        return evalnum(e[1], val) - evalnum(e[2], val)
    if t == 'neg':
        return -evalnum(e[1], val)
    if t == '*':
        return evalnum(e[1], val) * evalnum(e[2], val)
    if t == '@':
        return evalnum(e[1], val) @ evalnum(e[2], val)
    if t == 'sum':
        return np.sum(evalnum(e[1], val))
    if t == 'T':
        return np.asarray(evalnum(e[1], val)).T
    if t == 'E':
        return evalnum(e[1], val)
    if t == 'maxof':
        return max(float(np.asarray(evalnum(x, val)).reshape(-1)[0]) for x in e[1:])
    if t == 'minof':
        return min(float(np.asarray(evalnum(x, val)).reshape(-1)[0]) for x in e[1:])
    if t in ('norm', 'pnorm'):
        p = e[2]
        x = np.asarray(evalnum(e[1], val), dtype=float).reshape(-1)
        if p == 'inf':
            return np.max(np.abs(x))
        if isinstance(p, list):
            p = p[0] / p[1]
        return float(np.sum(np.abs(x) ** p) ** (1.0 / p))
    if t == 'f':
        x = np.asarray(evalnum(e[2], val), dtype=float)
        f = e[1]
        if f == 'abs':
            return np.abs(x)
        if f == 'square':
            return x ** 2
        if f == 'sumsqr':
            return float(np.sum(x ** 2))
        if f == 'exp':
            return np.exp(x)
        if f == 'log':
            return np.log(x)
        if f == 'entropy':
            return float(-np.sum(x * np.log(x)))
        if f == 'softplus':
            return np.log1p(np.exp(x))
        if f == 'power':
            return np.abs(x) ** (e[3] / (e[4] if len(e) > 4 else 1))
        raise ValueError('evalnum: unsupported function ' + f)
    raise ValueError('evalnum: unsupported node %r' % (t,))


def names_in(e, out=None):
    """All environment names an AST refers to."""
    if out is None:
        out = set()
    if isinstance(e, list) and e:
        if e[0] == 'v':
            out.add(e[1])
        elif e[0] == 'c':
            pass
        else:
            for x in e[1:]:
                if isinstance(x, list):
                    names_in(x, out)
    return out
