"""Executor: runs an explicit op list (pure JSON) against the real RSOME code inside a World.

An op list is the replayable artefact of this framework: spec + schedule + fault decisions, all explicit.
"""
import os
import sys
import gc
import traceback
import warnings
import importlib
import numpy as np

from . import world as W
from .astx import Builder, const


class RS:
    """Namespace holding the RSOME modules imported from the tree under test."""
    _inst = None

    def __init__(self):
        repo = os.environ.get('VERIF_REPO', '/repo')
        if sys.path[0] != repo:
            sys.path.insert(0, repo)
        W.install()
        warnings.filterwarnings('ignore')
        self.rso = importlib.import_module('rsome')
        if not os.path.abspath(self.rso.__file__).startswith(os.path.abspath(repo)):
            raise RuntimeError('rsome imported from %s, expected under %s' % (self.rso.__file__, repo))
        self.ro = importlib.import_module('rsome.ro')
        self.dro = importlib.import_module('rsome.dro')
        self.lp = importlib.import_module('rsome.lp')
        self.socp = importlib.import_module('rsome.socp')
        self.gcp = importlib.import_module('rsome.gcp')
        self.solvers = {
            'def': None,
            'lpg': importlib.import_module('rsome.lpg_solver'),
            'ort': importlib.import_module('rsome.ort_solver'),
            'grb': importlib.import_module('rsome.grb_solver'),
            'eco': importlib.import_module('rsome.eco_solver'),
        }

    @classmethod
    def get(cls):
        if cls._inst is None:
            cls._inst = RS()
        return cls._inst


def exc_sig(e):
    """(exception class, innermost rsome function) - part of violation signatures."""
    tb = traceback.extract_tb(e.__traceback__)
    where = ''
    for fr in tb:
        fn = fr.filename.replace('\\', '/')
        if '/rsome/' in fn:
            where = os.path.basename(fn) + ':' + fr.name
    return type(e).__name__, where


class Interp:
    def __init__(self, rs, world, hooks=None):
        self.rs = rs
        self.w = world
        self.env = {}
        self.kind = {}        # model name -> 'ro' | 'dro' | 'lp'
        self.b = Builder(rs.rso, self.env, hooks)
        self.log = []         # outcome per op (JSON-able, deterministic)
        self.nsolves = 0

    # -- helpers ---------------------------------------------------------------------------
    def _cs(self, asts):
        return [self.b.ev(c) for c in asts]

    def _scen(self, amb, scen):
        if scen is None:
            return amb
        if isinstance(scen, dict) and 'iloc' in scen:
            return amb.iloc[scen['iloc']]
        if isinstance(scen, dict) and 'loc' in scen:
            return amb.loc[scen['loc']]
        return amb[scen]

    # -- op dispatch -----------------------------------------------------------------------
    def step(self, op):
        name = op['op']
        try:
            out = getattr(self, 'op_' + name)(op)
            rec = {'op': name, 'ok': True}
            if out is not None:
                rec['out'] = out
        except KeyboardInterrupt as e:
            rec = {'op': name, 'ok': False, 'exc': list(exc_sig(e))}
        except Exception as e:
            rec = {'op': name, 'ok': False, 'exc': list(exc_sig(e)), 'msg': str(e)[:120]}
        self.log.append(rec)
        return rec

    def op_model(self, op):
        k = op['kind']
        if k == 'ro':
            m = self.rs.ro.Model(op.get('name'))
        elif k == 'dro':
            sc = op.get('scens', 1)
            m = self.rs.dro.Model(sc if isinstance(sc, int) else list(sc), op.get('name'))
            self.env[op['id'] + '.p'] = m.p
        elif k == 'lp':
            m = self.rs.lp.Model()
        elif k == 'socp':
            m = self.rs.socp.Model()
        elif k == 'gcp':
            m = self.rs.gcp.Model()
        else:
            raise ValueError(k)
        self.env[op['id']] = m
        self.kind[op['id']] = k

    def op_dvar(self, op):
        m = self.env[op['m']]
        shape = tuple(op.get('shape', []))
        self.env[op['id']] = m.dvar(shape, op.get('vtype', 'C'))

    def op_rvar(self, op):
        m = self.env[op['m']]
        self.env[op['id']] = m.rvar(tuple(op.get('shape', [])))

    def op_ldr(self, op):
        m = self.env[op['m']]
        self.env[op['id']] = m.ldr(tuple(op.get('shape', [])))

    def op_adapt(self, op):
        tgt = self.b.ev(op['tgt'])
        to = op['to']
        if isinstance(to, dict):
            if 'scen' in to:
                sc = to['scen']
                if isinstance(sc, dict) and 'range' in sc:
                    sc = range(sc['range'][0], sc['range'][1])
                elif isinstance(sc, dict) and 'np' in sc:
                    sc = np.int64(sc['np'])
                elif isinstance(sc, dict) and 'nparr' in sc:
                    sc = np.array(sc['nparr'])
                tgt.adapt(sc)
            elif 'fset' in to:
                amb = self.env[to['fset'][0]]
                tgt.adapt(self._scen(amb, to['fset'][1]))
            else:
                raise ValueError(to)
        else:
            tgt.adapt(self.b.ev(to))

    def op_amb(self, op):
        self.env[op['id']] = self.env[op['m']].ambiguity()

    def op_supp(self, op):
        amb = self.env[op['amb']]
        self._scen(amb, op.get('scen')).suppset(*self._cs(op['set']))

    def op_expt(self, op):
        amb = self.env[op['amb']]
        self._scen(amb, op.get('scen')).exptset(*self._cs(op['set']))

    def op_prob(self, op):
        self.env[op['amb']].probset(*self._cs(op['set']))

    def op_expr(self, op):
        self.env[op['id']] = self.b.ev(op['e'])

    def op_cons(self, op):
        self.env[op['id']] = self.b.ev(op['e'])

    def op_forall(self, op):
        c = self.env[op['id']]
        if 'amb' in op:
            r = c.forall(self.env[op['amb']])
        else:
            if 'setfrom' in op:
                # the very set-constraint objects another forall() call was given (kept alive under that call's id)
                cs = self.env['set:' + op['setfrom']]
            else:
                cs = self._cs(op['set'])
                if 'to' not in op:
                    self.env['set:' + op['id']] = cs
            r = c.forall(cs) if op.get('aslist') else c.forall(*cs)
        self.env[op.get('to', op['id'])] = r

    def op_st(self, op):
        m = self.env[op['m']]
        cs = [self.env[i] for i in op['ids']]
        if op.get('aslist'):
            m.st(cs)
        else:
            m.st(*cs)

    def op_obj(self, op):
        m = self.env[op['m']]
        how = op['how']
        e = self.b.ev(op['e'])
        if how in ('min', 'max'):
            getattr(m, how)(e)
        elif how in ('minmax', 'maxmin'):
            getattr(m, how)(e, *self._cs(op['set']))
        elif how in ('minsup', 'maxinf'):
            getattr(m, how)(e, self.env[op['amb']])
        else:
            raise ValueError(how)

    def op_formulate(self, op):
        m = self.env[op['m']]
        f = m.do_math(primal=op.get('primal', True))
        return {'shape': [int(f.linear.shape[0]), int(f.linear.shape[1])]}

    def _arm(self, op):
        f = op.get('fault')
        w = self.w
        if not f:
            return
        k = f['kind']
        if k in ('status', 'raise', 'none_solver'):
            w.armed = dict(f)
        elif k == 'stdout_broken':
            w.break_stdout_at = w.writes + int(f.get('nth', 1))
        elif k == 'clock_step':
            w.clock_steps.extend(f.get('steps', [f.get('delta', -3600.0)]))
        elif k == 'export_io':
            w.fs.fault = f.get('how', 'ENOSPC')
        elif k == 'int_noise':
            w.int_noise = float(f.get('eps', 4e-10))

    def _disarm(self):
        w = self.w
        w.armed = None
        w.break_stdout_at = None
        w.clock_steps[:] = []
        w.fs.fault = None
        w.int_noise = None

    def _solve(self, op, soc):
        m = self.env[op['m']]
        solver = self.rs.solvers[op.get('solver', 'def')]
        kw = dict(display=op.get('display', False))
        if 'log' in op:
            kw['log'] = op['log']
        if 'params' in op:
            kw['params'] = op['params']
        self._arm(op)
        self.nsolves += 1
        ncalls = len(self.w.calls)
        try:
            if soc:
                m.soc_solve(solver, **kw)
            else:
                m.solve(solver, **kw)
        except Exception as e:
            if 'size-limited license' in str(e):
                # the sandbox's Gurobi licence caps model size: inconclusive for this interface, never a violation
                return {'healthy': True, 'sol': 'inconclusive', 'status': 'gurobi_licence_size'}
            raise
        finally:
            self._disarm()
        healthy = all(h for _, h in self.w.calls[ncalls:])
        return self.status(op['m'], healthy)

    def status(self, mname, healthy=True):
        m = self.env[mname]
        sol = getattr(m, 'solution', None)
        out = {'healthy': healthy}
        if sol is None:
            out['sol'] = 'none'
            return out
        objval = sol.objval
        if objval is None or (isinstance(objval, float) and np.isnan(objval)) or np.isnan(objval):
            out['sol'] = 'nosol'
            out['status'] = str(sol.status)
        else:
            out['sol'] = 'opt'
            out['status'] = str(sol.status)
            out['obj'] = float(m.get())
        return out

    def op_solve(self, op):
        return self._solve(op, False)

    def op_soc_solve(self, op):
        return self._solve(op, True)

    def op_export(self, op):
        m = self.env[op['m']]
        self._arm(op)
        try:
            f = m.do_math(primal=op.get('primal', True))
            how = op.get('how', 'show')
            if how == 'show':
                t = f.show()
                return {'rows': int(t.shape[0])}
            if how == 'lp_export':
                s = f.lp_export()
                return {'len': len(s)}
            if how == 'to_lp':
                f.to_lp('/vfs/model%d' % len(self.w.fs.files))
                return {'files': len(self.w.fs.files)}
            if how == 'repr':
                return {'len': len(repr(f))}
        finally:
            self._disarm()

    def op_dualq(self, op):
        """shadow-price queries on every constraint object that offers dual(); failures are ignored (C14 is not
        decided here) - the point is that a query must not disturb the cached program"""
        n = 0
        for cid in op.get('ids', []):
            c = self.env.get(cid)
            if hasattr(c, 'dual'):
                try:
                    with warnings.catch_warnings():
                        warnings.simplefilter('ignore')
                        c.dual()
                    n += 1
                except Exception:
                    pass
        return {'queried': n}

    def op_gc(self, op):
        junk = [bytearray(64 + 8 * i) for i in range(int(op.get('junk', 0)))]
        del junk
        gc.collect()

    def op_call(self, op):
        """Generic escape hatch: obj.method(*args) for misuse operations; args are ASTs or raw."""
        obj = self.b.ev(op['obj'])
        args = [self.b.ev(a) if (isinstance(a, list) and a and isinstance(a[0], str)) else a
                for a in op.get('args', [])]
        r = getattr(obj, op['meth'])(*args)
        if 'to' in op:
            self.env[op['to']] = r

    def op_get(self, op):
        """Read a value: model.get(), var.get(), expr()"""
        obj = self.b.ev(op['e'])
        how = op.get('how', 'get')
        if how == 'get':
            if 'rvar' in op:
                r = obj.get(self.b.ev(op['rvar']))
            else:
                r = obj.get()
        else:
            r = obj()
        return {'val': tojson(r)}

    # -- bulk read-back used by oracles -----------------------------------------------------------
    def values(self, names):
        out = {}
        for n in names:
            try:
                out[n] = self.env[n].get()
            except Exception as e:
                out[n] = e
        return out


def tojson(r):
    import pandas as pd
    if isinstance(r, pd.Series):
        return {'series': [[str(k), tojson(v)] for k, v in r.items()]}
    if isinstance(r, np.ndarray):
        return [None if (isinstance(x, float) and np.isnan(x)) else x
                for x in np.asarray(r, float).round(9).reshape(-1).tolist()] if r.ndim else float(r)
    if isinstance(r, (float, int, np.floating, np.integer)):
        return float(r)
    return repr(r)[:80]


def run_ops(ops, hooks=None, world=None, stop_on=None):
    """Execute an op list in a fresh World.  Returns (interp, world)."""
    rs = RS.get()
    w = world or W.World()
    it = Interp(rs, w, hooks)
    with W.Bound(w, rs):
        for op in ops:
            rec = it.step(op)
            if stop_on and stop_on(op, rec):
                break
    return it, w
