"""Batch driver shared by all machines: seeded runs on a fork pool, shrinking, replay files,
known-findings matching, evidence files, exit codes.

A machine module provides
    NAME, PROPS                      machine name, property ids it can decide
    gen_case(seed, cfg)  -> case     pure data (JSON): declared model(s) + explicit op lists + fault decisions
    check_case(case, props) -> res   {'violations': [ {prop, oracle, sig, detail, tags} ], 'stats': {...}}
    shrink_candidates(case, viol)    yields smaller cases (optional)
    LEVEL, RULE, ASSUMPTIONS, COMPONENTS
Exit codes: 0 held / only known findings; 1 VIOLATION; 2 harness error (never 0 on timeout).
"""
import os
import sys
import json
import time
import hashlib
import random
import traceback
import faulthandler
import importlib
import subprocess
from concurrent.futures import ProcessPoolExecutor, as_completed
import multiprocessing as mp
import multiprocessing.connection

VERIF = os.path.dirname(os.path.dirname(os.path.abspath(__file__)))
OUT = os.environ.get('VERIF_OUT', VERIF)      # evidence/ and replays/ go here (mutant runs use a scratch dir)
RUN_WALL_CAP = 240          # seconds per single run before the watchdog kills the worker


def subseed(*parts):
    h = hashlib.sha256(('/'.join(str(p) for p in parts)).encode()).digest()
    return int.from_bytes(h[:8], 'big')


def digest(obj):
    return hashlib.sha256(json.dumps(obj, sort_keys=True, default=str).encode()).hexdigest()[:16]


def _worker_init():
    # engines (Gurobi licence banner, ECOS) write to fd 1 from C; results travel over the pool's pipe
    try:
        dn = os.open(os.devnull, os.O_WRONLY)
        os.dup2(dn, 1)
        sys.stdout = open(os.devnull, 'w')
        # engine callbacks that hit the injected broken stdout print 'Exception ignored' noise on fd 2
        if not os.environ.get('VERIF_WORKER_STDERR'):
            os.dup2(dn, 2)
    except Exception:
        pass


def _run_one(args):
    mod_name, seed, idx, cfg, props = args
    faulthandler.dump_traceback_later(RUN_WALL_CAP, exit=True)
    t0 = time.time()
    try:
        mod = importlib.import_module(mod_name)
        rseed = subseed(seed, mod.NAME, idx)
        case = mod.gen_case(rseed, cfg)
        res = mod.check_case(case, props)
        res['seed'] = rseed
        res['idx'] = idx
        res['wall'] = time.time() - t0
        if res['violations']:
            res['case'] = case
        if idx < 3:
            res['sample'] = mod.sample_of(case) if hasattr(mod, 'sample_of') else case
        return res
    except BaseException as e:       # harness error, reported apart from violations
        return {'harness_error': ''.join(traceback.format_exception(type(e), e, e.__traceback__))[-3000:],
                'idx': idx, 'violations': [], 'stats': {}}
    finally:
        faulthandler.cancel_dump_traceback_later()


def _iso_child(conn, a):
    _worker_init()
    try:
        conn.send(_run_one(a))
    except BaseException as e:
        conn.send({'harness_error': 'isolated run failed: %r' % (e,), 'idx': a[2], 'violations': [], 'stats': {}})
    finally:
        conn.close()


def _run_isolated(arg_list, jobs, ctx):
    out, live, pending = [], [], list(arg_list)
    if len(pending) > 50:
        # third-party libraries (not the tree under test) are imported once here, so each forked run starts warm
        for name in ('numpy', 'scipy.optimize', 'scipy.sparse', 'pandas', 'ecos', 'gurobipy', 'ortools.linear_solver.pywraplp'):
            try:
                importlib.import_module(name)
            except Exception:
                pass
    while pending or live:
        while pending and len(live) < jobs:
            a = pending.pop(0)
            pc, cc = ctx.Pipe(duplex=False)
            pr = ctx.Process(target=_iso_child, args=(cc, a))
            pr.start()
            cc.close()
            live.append((pr, pc, a, time.time()))
        still = []
        mp.connection.wait([pc_ for _, pc_, _, _ in live], timeout=0.05)
        for pr, pc, a, t0 in live:
            if pc.poll(0):
                try:
                    out.append(pc.recv())
                except EOFError:
                    out.append({'harness_error': 'run %d crashed its interpreter (native crash)' % a[2], 'idx': a[2],
                                'violations': [], 'stats': {}, 'crashed': True})
                pr.join(5)
            elif not pr.is_alive():
                out.append({'harness_error': 'run %d crashed its interpreter (exit code %s)' % (a[2], pr.exitcode), 'idx': a[2],
                            'violations': [], 'stats': {}, 'crashed': True})
            elif time.time() - t0 > RUN_WALL_CAP + 30:
                pr.kill()
                out.append({'harness_error': 'run %d exceeded the wall cap' % a[2], 'idx': a[2], 'violations': [], 'stats': {}})
            else:
                still.append((pr, pc, a, t0))
        live = still
    return out


def load_known():
    p = os.path.join(VERIF, 'known_findings.json')
    if not os.path.exists(p):
        return []
    with open(p) as f:
        return json.load(f).get('findings', [])


def match_known(v, known):
    """A violation matches an OPEN entry iff property and oracle agree, every required tag is among
    the tags of the *minimised* case, and (if given) the exception signature agrees."""
    import re
    for k in known:
        if k.get('state') != 'open':
            continue
        if k['property'] != v['prop']:
            continue
        if 'oracle' in k and not re.fullmatch(k['oracle'], v['oracle']):
            continue
        if any(t not in v.get('tags', []) for t in k.get('requires_tags', [])):
            continue
        if 'exc' in k and not re.search(k['exc'], v.get('exc', '') or ''):
            continue
        if 'detail_re' in k and not re.search(k['detail_re'], v.get('detail', '')):
            continue
        return k
    return None


def _shrink_child(conn, mod_name, case, viol, props, budget_s):
    _worker_init()
    try:
        mod = importlib.import_module(mod_name)
        conn.send(_shrink_here(mod, case, viol, props, budget_s))
    except BaseException:
        conn.send(None)
    finally:
        conn.close()


def shrink(mod, case, viol, props, budget_s=60):
    """Shrinking runs in a child process: the parent never executes the tree under test (a broken tree can crash an
    engine natively, and the parent must survive to report the violation).  If the child dies, the unshrunk case is kept."""
    if not hasattr(mod, 'shrink_candidates'):
        return case, viol
    ctx = mp.get_context('fork')
    pc, cc = ctx.Pipe(duplex=False)
    pr = ctx.Process(target=_shrink_child, args=(cc, mod.__name__, case, viol, props, budget_s))
    pr.start()
    cc.close()
    out = None
    try:
        if pc.poll(budget_s + 120):
            out = pc.recv()
    except EOFError:
        out = None
    pr.join(5)
    if pr.is_alive():
        pr.kill()
    return out if out else (case, viol)


def _shrink_here(mod, case, viol, props, budget_s=60):
    """Greedy structural shrinking: accept a candidate iff the same signature persists."""
    if not hasattr(mod, 'shrink_candidates'):
        return case, viol
    t0 = time.time()
    improved = True
    while improved and time.time() - t0 < budget_s:
        improved = False
        for cand in mod.shrink_candidates(case, viol):
            if time.time() - t0 > budget_s:
                break
            try:
                res = mod.check_case(cand, props)
            except Exception:
                continue
            same = [v for v in res['violations'] if v['sig'] == viol['sig']]
            if same:
                case, viol = cand, same[0]
                improved = True
                break
    return case, viol


def write_replay(mod, case, viol, tag):
    d = os.path.join(OUT, 'replays')
    os.makedirs(d, exist_ok=True)
    path = os.path.join(d, '%s_%s_%s.json' % (viol['prop'], mod.NAME, tag))
    with open(path, 'w') as f:
        json.dump({'machine': mod.__name__, 'property': viol['prop'], 'sig': viol['sig'],
                   'oracle': viol['oracle'], 'detail': viol.get('detail'), 'tags': viol.get('tags', []),
                   'case': case}, f, indent=1, sort_keys=True, default=str)
    return path


def replay_file(path, fresh=False):
    """Re-execute a replay file; returns list of violations with the recorded signature."""
    if fresh:
        env = dict(os.environ, PYTHONHASHSEED='0')
        p = subprocess.run([sys.executable, '-m', 'sim.runner', '--replay', path], cwd=VERIF, env=env,
                           capture_output=True, text=True, timeout=600)
        return p.returncode, p.stdout
    with open(path) as f:
        rep = json.load(f)
    mod = importlib.import_module(rep['machine'])
    res = mod.check_case(rep['case'], [rep['property']])
    same = [v for v in res['violations'] if v['sig'] == rep['sig']]
    return same, res


def run_batch(mod_name, prop, tier, seed, n_runs, cfg=None, jobs=None, wall_cap=None,
              extra_evidence=None):
    mod = importlib.import_module(mod_name)
    jobs = jobs or int(os.environ.get('VERIF_JOBS', '16'))
    cfg = dict(cfg or {})
    t0 = time.time()
    results, harness = [], []
    ctx = mp.get_context('fork')
    args = [(mod_name, seed, i, cfg, [prop]) for i in range(n_runs)]
    done = 0
    got = set()
    broken = False
    if os.environ.get('VERIF_FORCE_ISOLATED'):
        broken = True           # second attempt of the launcher after the first one was killed by a signal: one process per run
    with ProcessPoolExecutor(max_workers=jobs, mp_context=ctx, initializer=_worker_init) as ex:
        futs = {} if broken else {ex.submit(_run_one, a): a for a in args}
        try:
            for fu in as_completed(futs, timeout=wall_cap):
                try:
                    r = fu.result()
                except Exception as e:          # worker died (watchdog / native crash in an engine): pool is broken
                    broken = True
                    continue
                done += 1
                got.add(r.get('idx'))
                if 'harness_error' in r:
                    harness.append(r['harness_error'])
                results.append(r)
        except Exception as e:
            harness.append('batch wall cap hit or pool failure: %r' % (e,))
            for fu in futs:
                fu.cancel()
    if broken:
        # a native crash (e.g. an engine fed a malformed program by a broken tree) takes the whole pool down:
        # finish the remaining runs one process per run, so that only the crashing run is lost
        rest = [a for a in args if a[2] not in got]
        for r in _run_isolated(rest, jobs, ctx):
            if 'harness_error' in r:
                harness.append(r['harness_error'])
            results.append(r)
    results.sort(key=lambda r: r.get('idx', 0))

    # ---- violations: shrink, replay in a fresh interpreter, match against known findings ----------
    known = load_known()
    lines, n_viol, matched = [], 0, {}
    unconfirmed = []
    seen_sigs = {}
    for r in results:
        for v in r.get('violations', []):
            if v['prop'] != prop:
                continue
            seen_sigs.setdefault(v['sig'], []).append((r, v))
    for sig, occ in sorted(seen_sigs.items()):
        r, v = occ[0]
        case, v2 = shrink(mod, r['case'], v, [prop], budget_s=float(os.environ.get('VERIF_SHRINK_S', '45')))
        k = match_known(v2, known)
        if k is not None:
            matched.setdefault(k['id'], 0)
            matched[k['id']] += len(occ)
            continue
        path = write_replay(mod, case, v2, digest(v2['sig']))
        rc, out = replay_file(path, fresh=True)
        confirmed = (rc == 1)
        if not confirmed:
            # the minimised case does not fail alone: try the original, unshrunk case in a fresh interpreter
            path0 = write_replay(mod, r['case'], v, digest(v['sig']) + '_unshrunk')
            rc0, _ = replay_file(path0, fresh=True)
            if rc0 == 1:
                confirmed, path, v2 = True, path0, v
        if not confirmed:
            # a failure that cannot be reproduced from its own replay file is not reported as a violation: one seed must
            # be one repeatable execution.  (Seen with process-global state leaking between cases of one worker.)
            unconfirmed.append('UNCONFIRMED property=%s oracle=%s seed=%s runs=%d: did not reproduce in a fresh interpreter '
                               '(process-global state carried over from an earlier case of the same worker, or nondeterminism): %s'
                               % (prop, v2['oracle'], r.get('seed'), len(occ), v2.get('detail')))
            continue
        n_viol += 1
        lines.append('VIOLATION property=%s replay=%s' % (prop, path))
        lines.append('  oracle=%s seed=%s runs_with_this_signature=%d fresh_replay_reproduced=%s'
                     % (v2['oracle'], r.get('seed'), len(occ), confirmed))
        lines.append('  detail: %s' % (v2.get('detail'),))
    for k in known:
        if k.get('state') == 'open' and k['property'] == prop and k['id'] in matched:
            lines.append('KNOWN-FINDING: property=%s %s [%s, %d runs]' % (prop, k['what'], k['id'], matched[k['id']]))

    # ---- evidence --------------------------------------------------------------------------------
    wall = time.time() - t0
    agg = {}
    for r in results:
        for k, val in r.get('stats', {}).items():
            if isinstance(val, (int, float)):
                agg[k] = agg.get(k, 0) + val
            elif isinstance(val, dict):
                d = agg.setdefault(k, {})
                for kk, vv in val.items():
                    d[kk] = d.get(kk, 0) + vv
            elif isinstance(val, list):
                s = agg.setdefault(k, set())
                s.update(val)
    sets = {k: v for k, v in agg.items() if isinstance(v, set)}
    for k, v in sets.items():
        agg[k] = len(v)
    nontrivial = len(sets.get('nontrivial_sigs', ()))
    samples = [r['sample'] for r in results if 'sample' in r][:3]
    ev = {
        'property_id': prop,
        'tier': tier,
        'seed': int(seed),
        'level': mod.LEVEL.get(prop, 'exploration') if isinstance(mod.LEVEL, dict) else mod.LEVEL,
        'coverage': {
            'evaluations': len(results),
            'distinct_nontrivial': nontrivial,
            'rule': mod.RULE.get(prop, '') if isinstance(mod.RULE, dict) else mod.RULE,
            'samples': samples,
            'runs_per_hour': round(len(results) / max(wall, 1e-9) * 3600),
            'machine': mod.NAME,
            'counters': {k: v for k, v in agg.items() if k != 'nontrivial_sigs'},
            'components': mod.COMPONENTS,
            'known_findings_matched': matched,
            'harness_errors': len(harness),
            'unconfirmed_failures': len(unconfirmed),
            'jobs': jobs,
        },
        'assumptions': mod.ASSUMPTIONS,
        'wall_s': round(wall, 2),
        'violations': n_viol,
    }
    if extra_evidence:
        ev['coverage'].update(extra_evidence)
    os.makedirs(os.path.join(OUT, 'evidence'), exist_ok=True)
    with open(os.path.join(OUT, 'evidence', prop + '.json'), 'w') as f:
        json.dump(ev, f, indent=1, sort_keys=True, default=str)

    for ln in lines + unconfirmed:
        print(ln)
    print('%s %s tier=%s seed=%s runs=%d wall=%.1fs violations=%d known=%s harness_errors=%d'
          % (prop, mod.NAME, tier, seed, len(results), wall, n_viol, dict(matched), len(harness)))
    if harness:
        print('HARNESS-ERROR (first of %d):\n%s' % (len(harness), harness[0]), file=sys.stderr)
    if n_viol:
        return 1
    if harness or len(results) < n_runs or unconfirmed:
        return 2
    return 0


def main_replay(path):
    same, res = replay_file(path)
    if same:
        with open(path) as f:
            rep = json.load(f)
        print('VIOLATION property=%s replay=%s' % (rep['property'], path))
        print('  reproduced: %s' % (same[0].get('detail'),))
        return 1
    print('replay %s: recorded signature NOT reproduced (%d other violations)' % (path, len(res['violations'])))
    return 0


if __name__ == '__main__':
    if len(sys.argv) >= 3 and sys.argv[1] == '--replay':
        sys.exit(main_replay(sys.argv[2]))
