"""Arbiter for C11: solve a SNAPSHOT of a compiled program by calling the real engines directly, through an
independent translation written here (no RSOME interface code involved).

Used only when two RSOME interfaces disagree on a healthy call: if an engine called directly on the same data gives
the same value as it gave through RSOME's interface, the interface passed the program on faithfully and the
disagreement is between the engines themselves (e.g. the HiGHS presolve defect in scipy 1.18 that returns a
suboptimal MILP point as optimal) - that is inconclusive for C11, not a violation.
"""
import numpy as np
import scipy.sparse as sp
import scipy.optimize as opt

from . import world as W


def _bounds(s):
    lb, ub = s['lb'].copy(), s['ub'].copy()
    bb = s['vtype'] == 'B'
    lb[bb] = np.maximum(lb[bb], 0)
    ub[bb] = np.minimum(ub[bb], 1)
    return lb, ub


def scipy_direct(s):
    if s['qmat'] or s['xmat']:
        return None
    lb, ub = _bounds(s)
    A, b = s['A'], s['b']
    eq = s['sense'] == 1
    if np.all(s['vtype'] == 'C'):
        res = W.REAL['linprog'](s['obj'], A_ub=A[~eq] if (~eq).any() else None, b_ub=b[~eq] if (~eq).any() else None,
                                A_eq=A[eq] if eq.any() else None, b_eq=b[eq] if eq.any() else None,
                                bounds=list(zip(lb, ub)))
    else:
        bl = np.full(A.shape[0], -np.inf)
        bl[eq] = b[eq]
        res = W.REAL['milp'](s['obj'], constraints=opt.LinearConstraint(A, bl, b), bounds=opt.Bounds(lb, ub),
                             integrality=(s['vtype'] != 'C').astype(float))
    return float(res.fun) if res.status == 0 else None


def gurobi_direct(s):
    import gurobipy as gp
    if s['xmat']:
        return None
    lb, ub = _bounds(s)
    m = W.REAL['grb_model']()
    m.setParam('LogToConsole', 0)
    n = s['A'].shape[1]
    vt = ['C' if v == 'C' else ('B' if v == 'B' else 'I') for v in s['vtype']]
    x = m.addMVar(n, lb=lb, ub=ub, vtype=vt)
    eq = s['sense'] == 1
    if eq.any():
        m.addMConstr(s['A'][eq], x, '=', s['b'][eq])
    if (~eq).any():
        m.addMConstr(s['A'][~eq], x, '<', s['b'][~eq])
    for q in s['qmat']:
        m.addConstr(x[q[1:]] @ x[q[1:]] <= x[q[0]] * x[q[0]])
    m.setObjective(s['obj'] @ x)
    m.optimize()
    return float(m.ObjVal) if m.Status == 2 else None


def ortools_direct(s):
    from ortools.linear_solver import pywraplp
    if s['qmat'] or s['xmat']:
        return None
    lb, ub = _bounds(s)
    mip = not np.all(s['vtype'] == 'C')
    sol = W.REAL['ort_create']('SCIP' if mip else 'GLOP')
    inf = sol.infinity()
    xs = []
    for j in range(len(lb)):
        lo = -inf if lb[j] == -np.inf else float(lb[j])
        hi = inf if ub[j] == np.inf else float(ub[j])
        xs.append(sol.NumVar(lo, hi, 'x%d' % j) if s['vtype'][j] == 'C' else sol.IntVar(lo, hi, 'x%d' % j))
    A = s['A'].tocsr()
    for i in range(A.shape[0]):
        row = A[i]
        if row.nnz == 0:
            continue
        ct = sol.RowConstraint(float(s['b'][i]) if s['sense'][i] == 1 else -inf, float(s['b'][i]), '')
        for j, v in zip(row.indices, row.data):
            ct.SetCoefficient(xs[j], float(v))
    obj = sol.Objective()
    for j, c in enumerate(s['obj']):
        if c:
            obj.SetCoefficient(xs[j], float(c))
    obj.SetMinimization()
    st = sol.Solve()
    return float(obj.Value()) if st == pywraplp.Solver.OPTIMAL else None


def ecos_direct(s):
    mi = {}
    if not np.all(s['vtype'] == 'C'):
        # ECOS_BB, with the same wall-clock cap as the proxy; a run that ends at the cap proves nothing
        mi = {'bool_vars_idx': [int(j) for j in np.where(s['vtype'] == 'B')[0]],
              'int_vars_idx': [int(j) for j in np.where(s['vtype'] == 'I')[0]],
              'mi_max_iters': W.ECOS_MI_CAP, 'mi_verbose': False}
    n = s['A'].shape[1]
    eq = s['sense'] == 1
    rows = [s['A'][~eq]]
    h = [s['b'][~eq]]
    fl = np.where(s['lb'] > -np.inf)[0]
    fu = np.where(s['ub'] < np.inf)[0]
    rows.append(sp.csr_matrix((-np.ones(len(fl)), (np.arange(len(fl)), fl)), (len(fl), n)))
    h.append(-s['lb'][fl])
    rows.append(sp.csr_matrix((np.ones(len(fu)), (np.arange(len(fu)), fu)), (len(fu), n)))
    h.append(s['ub'][fu])
    nl = sum(r.shape[0] for r in rows)
    qd = []
    for q in s['qmat']:
        rows.append(sp.csr_matrix((-np.ones(len(q)), (np.arange(len(q)), q)), (len(q), n)))
        h.append(np.zeros(len(q)))
        qd.append(len(q))
    for e in s['xmat']:
        rows.append(sp.csr_matrix((-np.ones(3), (np.arange(3), e)), (3, n)))
        h.append(np.zeros(3))
    G = sp.csc_matrix(sp.vstack(rows))
    hh = np.concatenate(h)
    A = sp.csc_matrix(s['A'][eq]) if eq.any() else None
    b = s['b'][eq] if eq.any() else None
    sol = W.REAL['ecos'](s['obj'], G, hh, {'l': nl, 'q': qd, 'e': len(s['xmat'])}, A, b, verbose=False, **mi)
    if mi and int(sol['info'].get('mi_iter', 0)) >= W.ECOS_MI_CAP - 1:
        return None
    return float(sol['info']['pcost']) if sol['info']['exitFlag'] in (0, 10) else None


DIRECT = {'scipy': scipy_direct, 'gurobi': gurobi_direct, 'ortools': ortools_direct, 'ecos': ecos_direct}
