"""Seeded generators of declared-model ingredients (pure data).  Every draw comes from the
random.Random handed in; nothing here touches RSOME."""
import math


def r2(rng, lo, hi):
    return round(rng.uniform(lo, hi), 2)


def nz2(rng, lo=-3.0, hi=3.0):
    """nonzero 2-decimal number in [lo, hi]"""
    while True:
        v = r2(rng, lo, hi)
        if abs(v) >= 0.1:
            return v


LP_FAMS = ['box', 'absbox', 'n1', 'ninf', 'budget', 'poly']
SOC_FAMS = ['n2', 'ssq', 'ell', 'pn', 'pow']
EXP_FAMS = ['pnx']


def gen_block(rng, zname, idx, fams):
    k = len(idx)
    fam = rng.choice(fams)
    if fam in ('n1', 'n2', 'ninf', 'ssq', 'pn', 'pnx', 'ell', 'budget') and k == 1 and fam != 'n1':
        # rsome norms need 1-D arrays; length-1 slices are fine, but keep a few plain boxes around
        pass
    b = {'fam': fam, 'z': zname, 'idx': list(idx)}
    if fam == 'box':
        lo = [r2(rng, -2.0, 0.5) for _ in idx]
        b['lo'] = lo
        b['hi'] = [round(l + r2(rng, 0.5, 2.5), 2) for l in lo]
        if rng.random() < 0.3:
            # one-sided components: an end of the interval sits exactly at zero (compilers treat zero bounds specially)
            for j in range(k):
                u = rng.random()
                if u < 0.4:
                    b['lo'][j], b['hi'][j] = -r2(rng, 0.5, 2.5), 0.0
                elif u < 0.7:
                    b['lo'][j], b['hi'][j] = 0.0, r2(rng, 0.5, 2.5)
        if rng.random() < 0.3:
            b['form'] = 'scalar'        # one scalar bound per component instead of two vector comparisons
        if rng.random() < 0.3:
            # redundant looser bounds on the same components, stated before or after the tight ones
            b['dup'] = {'pos': rng.choice(['after', 'after', 'before']), 'slack': r2(rng, 0.5, 3.0),
                        'sides': rng.choice(['U', 'L', 'UL'])}
        return b
    centered = rng.random() < 0.5
    if centered:
        b['c'] = [r2(rng, -1.0, 1.0) for _ in idx]
    if fam == 'absbox':
        b['w'] = [r2(rng, 0.5, 2.0) for _ in idx]
        return b
    if rng.random() < 0.4 and fam not in ('ell', 'pow'):
        b['w'] = [r2(rng, 0.5, 2.0) for _ in idx]
    if fam in ('n1', 'n2', 'ninf', 'ssq'):
        b['r'] = r2(rng, 0.5, 2.0)
    elif fam == 'pn':
        b['p'] = rng.choice([3, 4, [5, 2], [3, 2], [7, 3]])
        b['r'] = r2(rng, 0.5, 2.0)
    elif fam == 'pnx':
        b['p'] = rng.choice([2.5, 3.0, 1.5, 4.0])
        b['r'] = r2(rng, 0.5, 2.0)
    elif fam == 'ell':
        L = [[0.0] * k for _ in range(k)]
        for i in range(k):
            for j in range(i + 1):
                L[i][j] = r2(rng, 0.5, 1.5) if i == j else r2(rng, -0.5, 0.5)
        b['Linv'] = L
        b['r'] = r2(rng, 0.5, 2.0)
    elif fam == 'budget':
        b['gamma'] = r2(rng, 1.0, max(1.0, k - 0.25)) if k > 1 else 1.0
    elif fam == 'pow':
        b['p'] = rng.choice([2, 3, 4])
        b['r'] = r2(rng, 0.5, 2.0)
    elif fam == 'poly':
        b.pop('c', None)
        b.pop('w', None)
        lo = [r2(rng, -2.0, -0.5) for _ in idx]
        hi = [r2(rng, 0.5, 2.0) for _ in idx]
        b['lo'], b['hi'] = lo, hi
        rows = rng.randint(1, 2)
        A, bb = [], []
        for _ in range(rows):
            row = [r2(rng, -1.0, 1.0) for _ in idx]
            A.append(row)
            bb.append(r2(rng, 0.3, 1.5))      # origin strictly inside
        b['A'], b['b'] = A, bb
    return b


def gen_set(rng, zsizes, fams, max_blocks=2):
    """A bounded set over all random arrays in zsizes (dict name -> length): every component covered."""
    blocks = []
    for zn, n in zsizes.items():
        idx = list(range(n))
        if n >= 2 and max_blocks > 1 and rng.random() < 0.4:
            cut = rng.randint(1, n - 1)
            parts = [idx[:cut], idx[cut:]]
        else:
            parts = [idx]
        for part in parts:
            blocks.append(gen_block(rng, zn, part, fams))
    return blocks


def fams_for(cls):
    if cls == 'lp':
        return LP_FAMS
    if cls == 'soc':
        return LP_FAMS + SOC_FAMS + SOC_FAMS
    return LP_FAMS + SOC_FAMS + EXP_FAMS + EXP_FAMS


def topo_order(rng, steps, bias='uniform'):
    """Random linear extension of the step DAG.  steps: list of dicts with 'sid' and 'deps'.
    bias: canonical | reverse | uniform | late (declaration steps flagged 'late' are pushed back)."""
    done = set()
    remaining = list(steps)
    order = []
    while remaining:
        ready = [s for s in remaining if all(d in done for d in s.get('deps', []))]
        if not ready:
            raise ValueError('cyclic step DAG')
        if bias == 'canonical':
            pick = ready[0]
        elif bias == 'reverse':
            pick = ready[-1]
        elif bias == 'late':
            early = [s for s in ready if not s.get('late')]
            pick = rng.choice(early) if early and rng.random() < 0.85 else rng.choice(ready)
        else:
            pick = rng.choice(ready)
        order.append(pick)
        done.add(pick['sid'])
        remaining.remove(pick)
    return order
