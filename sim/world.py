"""Simulated world: every seam through which RSOME meets nondeterminism or faults.

Seams owned here (all installed from /verif, no hook in /repo):
  * solver engines  - scipy.optimize.linprog/milp, ecos.solve, pywraplp.Solver.CreateSolver,
                      gurobipy.Model : pass-through proxies that forward to the REAL engine and then
                      apply the fault that the executor armed for this call (if any);
  * clock           - the name `time` inside rsome.lp / rsome.*_solver is rebound to a virtual clock;
  * stdout          - sys.stdout is replaced by a sink while an operation runs;
  * file            - the name `open` inside rsome.lp is rebound to an in-memory file system.

One World object belongs to one execution of one op list.  The proxies are installed once per process
and look at the module global CURRENT; with CURRENT None they are pure pass-through.
"""
import sys
import io
import errno

CURRENT = None          # the World of the op list being executed right now
_INSTALLED = False
REAL = {}               # real engine entry points


class InjectedEngineError(RuntimeError):
    """Raised by a proxy in place of the engine (fault kind 'raise', exc='RuntimeError')."""


class VTime:
    """Virtual clock object bound to the name `time` inside rsome modules."""

    def __init__(self, world):
        self._w = world

    def time(self):
        w = self._w
        w.ticks += 1
        if w.clock_steps:
            w.now += w.clock_steps.pop(0)
            w.count('clock_step')
        w.now += 1e-4
        return w.now

    perf_counter = time
    monotonic = time

    def sleep(self, d):
        self._w.now += d
        self._w.slept += d


class Sink(io.TextIOBase):
    """stdout sink; can be told to fail at the n-th write."""

    def __init__(self, world):
        self._w = world

    def writable(self):
        return True

    def write(self, s):
        w = self._w
        w.writes += 1
        if w.break_stdout_at is not None and w.writes >= w.break_stdout_at:
            w.break_stdout_at = None
            w.count('stdout_broken')
            raise BrokenPipeError(errno.EPIPE, 'injected: broken pipe on stdout')
        w.printed += len(s)
        return len(s)

    def flush(self):
        pass


class MemFile(io.StringIO):
    def __init__(self, fs, name, fault):
        super().__init__()
        self._fs, self._name, self._fault = fs, name, fault

    def write(self, s):
        f = self._fault
        if f == 'ENOSPC':
            self._fs.world.count('export_io')
            raise OSError(errno.ENOSPC, 'injected: no space left on device')
        if f == 'short':
            self._fs.world.count('export_io')
            self._fault = None
            return super().write(s[:max(1, len(s) // 2)])
        return super().write(s)

    def close(self):
        self._fs.files[self._name] = self.getvalue()
        super().close()


class MemFS:
    def __init__(self, world):
        self.world = world
        self.files = {}
        self.fault = None        # None | 'EACCES' | 'ENOSPC' | 'short'

    def open(self, name, mode='r', *a, **k):
        f, self.fault = self.fault, None
        if 'w' in mode:
            if f == 'EACCES':
                self.world.count('export_io')
                raise PermissionError(errno.EACCES, 'injected: permission denied', name)
            return MemFile(self, name, f)
        if name not in self.files:
            raise FileNotFoundError(name)
        return io.StringIO(self.files[name])


class World:
    def __init__(self, epoch=1.7e9):
        self.now = float(epoch)
        self.epoch = float(epoch)
        self.slept = 0.0
        self.ticks = 0
        self.clock_steps = []
        self.writes = 0
        self.printed = 0
        self.break_stdout_at = None
        self.fs = MemFS(self)
        self.vtime = VTime(self)
        self.sink = Sink(self)
        self.armed = None            # fault dict for the next engine call
        self.int_noise = None        # buggify: integer entries of a MILP answer come back within the engine's tolerance only
        self.fired = {}              # kind -> count (faults that actually fired)
        self.calls = []              # (engine, healthy?) per engine call
        self.last_x = {}             # engine -> last healthy x (for 'stale')
        self.ecos_bb_capped = False  # the last ECOS_BB run was ended by the proxy's wall-clock cap

    def count(self, kind):
        self.fired[kind] = self.fired.get(kind, 0) + 1

    def take(self, engine):
        """Called by a proxy at the start of an engine call."""
        f, self.armed = self.armed, None
        if f is not None and f.get('kind') in ('status', 'raise', 'none_solver'):
            self.calls.append((engine, False))
            return f
        self.calls.append((engine, True))
        return None

    @property
    def simulated_seconds(self):
        # simulated time that passed through sleeps and clock reads (injected clock jumps excluded)
        return self.slept + 1e-4 * self.ticks


# ------------------------------------------------------------------------------------------------
# engine proxies
# ------------------------------------------------------------------------------------------------

def _mk_exc(name):
    if name == 'MemoryError':
        return MemoryError('injected: engine out of memory')
    if name == 'KeyboardInterrupt':
        return KeyboardInterrupt()
    if name == 'GurobiError':
        import gurobipy
        return gurobipy.GurobiError('injected: engine failure')
    if name == 'ValueError':
        return ValueError('injected: engine rejected the model')
    return InjectedEngineError('injected: engine failure')


def _garbage(n):
    import numpy as np
    return np.arange(n, dtype=float) * 7.0 + 12345.0


def _scipy_proxy(which):
    real = REAL[which]

    def proxy(*a, **kw):
        w = CURRENT
        if w is None:
            return real(*a, **kw)
        f = w.take('scipy')
        if f and f['kind'] == 'raise':
            w.count('raise')
            raise _mk_exc(f.get('exc'))
        res = real(*a, **kw)
        if f and f['kind'] == 'status':
            w.count('status')
            xmode = f.get('x', 'none')
            x = res.x
            res.status = int(f['status'])
            res.success = False
            res.message = 'injected status %d' % res.status
            if xmode == 'none' or x is None:
                res.x = None
            elif xmode == 'garbage':
                res.x = _garbage(len(x))
            # 'stale': leave the vector the engine computed in place
            try:
                res.fun = None if res.x is None else res.fun
            except Exception:
                pass
        elif which == 'milp' and w.int_noise and getattr(res, 'status', 1) == 0 and res.x is not None:
            # legal engine behaviour made frequent: HiGHS returns integer columns only up to its integrality tolerance
            # (1e-6); here every non-zero integer entry comes back a hair closer to zero (4.9999999996 instead of 5)
            import numpy as np
            integ = np.asarray(kw.get('integrality', a[4] if len(a) > 4 else 0))
            if integ.ndim and integ.shape == res.x.shape and (integ > 0).any():
                x = np.array(res.x, float)
                m_ = (integ > 0) & (np.abs(x) > 0.5)
                x[m_] = x[m_] - np.sign(x[m_]) * float(w.int_noise)
                res.x = x
                w.count('int_noise')
        return res
    proxy.__name__ = which
    return proxy


ECOS_MI_CAP = 20000


def _ecos_proxy(*a, **kw):
    real = REAL['ecos']
    w = CURRENT
    kw.setdefault('verbose', False)
    if 'mi_max_iters' in kw:
        # RSOME passes 1e8, with which ECOS_BB can cycle for hours; the cap only bounds wall time:
        # hitting it yields a soft failure that the oracles classify as inconclusive.
        kw['mi_max_iters'] = min(int(kw['mi_max_iters']), ECOS_MI_CAP)
        kw.setdefault('mi_verbose', False)
    if w is None:
        return real(*a, **kw)
    f = w.take('ecos')
    if f and f['kind'] == 'raise':
        w.count('raise')
        raise _mk_exc(f.get('exc'))
    sol = real(*a, **kw)
    if 'mi_max_iters' in kw and int(sol['info'].get('mi_iter', 0)) >= kw['mi_max_iters'] - 1:
        # the wall-clock cap of the proxy ended the branch-and-bound, not the engine: whatever was returned is no optimum
        w.ecos_bb_capped = True
    else:
        w.ecos_bb_capped = False
    if f and f['kind'] == 'status':
        w.count('status')
        sol['info']['exitFlag'] = int(f['status'])
        sol['info']['infostring'] = 'injected exitFlag %d' % int(f['status'])
        if f.get('x') == 'garbage':
            sol['x'] = _garbage(len(sol['x']))
    return sol


class _OrtSolverProxy:
    def __init__(self, real_solver, fault, world):
        object.__setattr__(self, '_r', real_solver)
        object.__setattr__(self, '_f', fault)
        object.__setattr__(self, '_w', world)

    def __getattr__(self, name):
        return getattr(self._r, name)

    def Solve(self, *a, **k):
        f = self._f
        if f and f['kind'] == 'raise':
            self._w.count('raise')
            raise _mk_exc(f.get('exc'))
        st = self._r.Solve(*a, **k)
        if f and f['kind'] == 'status':
            self._w.count('status')
            return int(f['status'])
        return st


def _ort_create(name, *a, **k):
    real = REAL['ort_create']
    w = CURRENT
    if w is None:
        return real(name, *a, **k)
    f = w.take('ortools')
    if f and f['kind'] == 'none_solver':
        w.count('none_solver')
        return None
    return _OrtSolverProxy(real(name, *a, **k), f, w)


class _GrbModelProxy:
    def __init__(self, real_model, fault, world):
        object.__setattr__(self, '_r', real_model)
        object.__setattr__(self, '_f', fault)
        object.__setattr__(self, '_w', world)
        object.__setattr__(self, '_st', None)

    def __getattr__(self, name):
        st = object.__getattribute__(self, '_st')
        if st is not None:
            f = object.__getattribute__(self, '_f')
            if name == 'Status' or name == 'status':
                return int(f['status'])
            if not f.get('incumbent'):
                if name in ('ObjVal', 'objVal', 'X', 'x'):
                    raise AttributeError("injected: Unable to retrieve attribute '%s'" % name)
                if name in ('Runtime', 'runtime'):
                    return 0.0
        return getattr(object.__getattribute__(self, '_r'), name)

    def __setattr__(self, name, value):
        setattr(self._r, name, value)

    def getAttr(self, attr, *a):
        st = object.__getattribute__(self, '_st')
        if st is not None and not self._f.get('incumbent') and str(attr).upper() in ('X', 'OBJVAL'):
            raise AttributeError("injected: Unable to retrieve attribute '%s'" % attr)
        return self._r.getAttr(attr, *a)

    def optimize(self, *a, **k):
        f = self._f
        if f and f['kind'] == 'raise':
            self._w.count('raise')
            raise _mk_exc(f.get('exc'))
        if f and f['kind'] == 'status':
            self._w.count('status')
            object.__setattr__(self, '_st', int(f['status']))
            if f.get('incumbent'):
                return self._r.optimize(*a, **k)
            return None       # engine stopped before producing anything
        return self._r.optimize(*a, **k)


def _grb_model(*a, **k):
    real = REAL['grb_model']
    w = CURRENT
    if w is None:
        return real(*a, **k)
    f = w.take('gurobi')
    return _GrbModelProxy(real(*a, **k), f, w)


def install():
    """Patch the third-party module objects once per process (before or after `import rsome`:
    RSOME looks every one of these up through the module attribute at call time)."""
    global _INSTALLED
    if _INSTALLED:
        return
    import scipy.optimize as opt
    import ecos
    from ortools.linear_solver import pywraplp
    import gurobipy
    REAL['linprog'] = opt.linprog
    REAL['milp'] = opt.milp
    REAL['ecos'] = ecos.solve
    REAL['ort_create'] = pywraplp.Solver.CreateSolver
    REAL['grb_model'] = gurobipy.Model
    opt.linprog = _scipy_proxy('linprog')
    opt.milp = _scipy_proxy('milp')
    ecos.solve = _ecos_proxy
    pywraplp.Solver.CreateSolver = staticmethod(_ort_create)
    gurobipy.Model = _grb_model
    _INSTALLED = True


_RS_TIME_MODULES = ('lp', 'eco_solver', 'ort_solver', 'grb_solver')


class Bound:
    """Context manager: bind a World to the seams for the duration of an op list."""

    def __init__(self, world, rs):
        self.world, self.rs = world, rs
        self.saved = {}

    def __enter__(self):
        global CURRENT
        import importlib
        w = self.world
        self.saved['stdout'] = sys.stdout
        for m in _RS_TIME_MODULES:
            mod = importlib.import_module('rsome.' + m)
            self.saved[m] = mod.__dict__.get('time')
            mod.time = w.vtime
        lp = importlib.import_module('rsome.lp')
        self.saved['open'] = lp.__dict__.get('open')
        lp.open = w.fs.open
        sys.stdout = w.sink
        CURRENT = w
        return w

    def __exit__(self, *exc):
        global CURRENT
        import importlib
        CURRENT = None
        sys.stdout = self.saved['stdout']
        for m in _RS_TIME_MODULES:
            mod = importlib.import_module('rsome.' + m)
            mod.time = self.saved[m]
        lp = importlib.import_module('rsome.lp')
        if self.saved['open'] is None:
            lp.__dict__.pop('open', None)
        else:
            lp.open = self.saved['open']
        return False
