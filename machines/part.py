"""M-PART: adaptation-history simulator for C13 (non-anticipativity as declared) and C12 (read-back).

A case is an explicit op list that builds one model through a seeded history of adapt() calls (event-wise and
affine, on whole decisions and on slices, interleaved with other declarations and with environment events), then
solves it.  The oracle is a closed form that *decodes* the partition / dependency mask that was actually enforced:

  dro 'combo' model   scenarios s with box supports |z| <= r_s (distinct radii), fixed distinct probabilities p_s,
                      y_i >= c_i.z,  t_i >= y_i - c_i.z,  min sup E[w.t]
                      y_i: event partition P_y and dependency set J_i;  t_i: event partition P_t, static
                      =>  y0_{i,e} = C_i R_e,  Y_{ij} = c_ij (j in J_i),  t_{i,e'} = max_{s in e'} C_i (R_{e(s)} + r_s)
                          with C_i = sum_{j not in J_i} |c_ij|, R_e = max_{s in e} r_s;  optimum = sum_s p_s w.t_s
  ro 'ldr' model      same with one support, y an ro decision rule
  dro 'mix' model     x1 + x2 >= z with two different partitions, optimum from a direct reference LP
Illegal declarations (re-declared scenario / dependency, affine adaptation of an integer decision, foreign random
variable, unknown label, adaptation after use) are injected as the last op of a history and must raise.
"""
import copy
import math
import random

import numpy as np

from sim import interp, gen
from sim import world as W
from sim.runner import subseed, digest

NAME = 'M-PART'
PROPS = ['C13', 'C12']
LEVEL = 'exploration'
RULE = {
    'C13': 'case = seeded history of adapt() calls (events and affine dependence, whole decisions and slices, 2-5 '
           'scenarios under a random labelling) ending in a solve, or a legal prefix plus one illegal declaration; distinct = '
           'distinct (partition(s), dependency masks, call order) signature; non-trivial = a partition with >=2 events or a '
           'non-empty proper dependency mask was reached, or an illegal declaration was attempted',
    'C12': 'same histories; every read-back (model.get, x.get, x.get(z), x(), expr(z.assign(v))) is compared with the closed '
           'form per label / per coefficient; distinct/non-trivial as for C13 plus >=1 labelled (series) read-back checked',
}
ASSUMPTIONS = [
    'closed forms derived in machines/part.py docstring (unique optimum because radii, probabilities, weights are generic)',
    'engines trusted on healthy calls',
]
COMPONENTS = {
    'real': ['rsome/* from the tree under test', 'HiGHS, GLOP/SCIP, Gurobi, ECOS behind pass-through proxies'],
    'stub': ['clock', 'stdout sink', 'engine fault plan'],
}
TOL = 1e-6


# --------------------------------------------------------------------------------------------------
# reference model of partitions and masks
# --------------------------------------------------------------------------------------------------

class RefPartition:
    """set of frozensets; event-wise adapt() moves scenarios out of the remainder into a new event"""

    def __init__(self, n):
        self.n = n
        self.events = []            # user-declared events (lists of positions)
        self.moved = set()

    def adapt(self, positions):
        positions = list(positions)
        if any(p in self.moved for p in positions) or len(set(positions)) != len(positions):
            return False            # illegal: re-declaration
        self.moved.update(positions)
        self.events.append(sorted(positions))
        return True

    def partition(self):
        rest = [s for s in range(self.n) if s not in self.moved]
        return ([rest] if rest else []) + [list(e) for e in self.events]

    def event_of(self):
        out = {}
        for e in self.partition():
            for s in e:
                out[s] = tuple(e)
        return out


def gen_labels(rng, S):
    k = rng.randrange(4)
    if k == 0:
        return list(range(S)), True
    if k == 1:
        labs = ['a', 'b', 'c', 'd', 'e'][:S]
        rng.shuffle(labs)
        return labs, False
    if k == 2:
        labs = rng.sample(range(10, 99), S)
        return labs, False
    labs = ['s%d' % i for i in range(S)]
    return labs, False


def gen_partition_calls(rng, S):
    """random set partition via a sequence of adapt calls: list of position lists"""
    pos = list(range(S))
    rng.shuffle(pos)
    calls = []
    n_moved = rng.randint(0, S)
    moved = pos[:n_moved]
    while moved:
        k = rng.randint(1, len(moved))
        calls.append(moved[:k])
        moved = moved[k:]
    return calls


def _adapt_scen_op(rng, tgt, labels, int_labels, positions, amb):
    labs = [labels[p] for p in positions]
    how = rng.randrange(3)
    if how == 0 and amb:
        sc = labs if len(labs) > 1 or rng.random() < 0.5 else labs[0]
        if int_labels:
            return {'op': 'adapt', 'tgt': tgt, 'to': {'fset': [amb, sc]}}
        return {'op': 'adapt', 'tgt': tgt, 'to': {'fset': [amb, {'loc': sc}]}}
    if len(labs) == 1 and rng.random() < 0.5:
        # (a numpy integer SCALAR label is rejected loudly by DecVar.adapt - TypeError - and is therefore not generated:
        #  the property does not promise that input type; observed, see DESIGN.md 8.2)
        return {'op': 'adapt', 'tgt': tgt, 'to': {'scen': labs[0]}}
    if int_labels and sorted(labs) == list(range(min(labs), min(labs) + len(labs))) and rng.random() < 0.3:
        return {'op': 'adapt', 'tgt': tgt, 'to': {'scen': {'range': [min(labs), min(labs) + len(labs)]}}}
    if all(isinstance(l_, int) for l_ in labs) and rng.random() < 0.2:
        return {'op': 'adapt', 'tgt': tgt, 'to': {'scen': {'nparr': labs}}}
    return {'op': 'adapt', 'tgt': tgt, 'to': {'scen': labs}}


def zsel(zname, J):
    J = sorted(J)
    if len(J) == 1 and False:
        return ['i', ['v', zname], J[0]]
    if J == list(range(J[0], J[0] + len(J))):
        return ['i', ['v', zname], [J[0], J[0] + len(J)]]
    return ['i', ['v', zname], {'l': J}]


def zsel2(rng, zname, J, n):
    """the components J of a random array of length n, addressed in one of several equivalent ways (contiguous slice,
    stepped slice, negative index, index list in any order)"""
    J = sorted(J)
    forms = [zsel(zname, J)]
    if len(J) == 1:
        forms.append(['i', ['v', zname], {'l': [J[0] - n]}])                       # negative position
    if len(J) >= 2 and all(J[k + 1] - J[k] == J[1] - J[0] for k in range(len(J) - 1)) and J[1] - J[0] > 1:
        forms.append(['i', ['v', zname], {'s': [J[0], J[-1] + 1, J[1] - J[0]]}])   # stepped slice
    if len(J) >= 2:
        Jp = list(J)
        rng.shuffle(Jp)
        forms.append(['i', ['v', zname], {'l': Jp}])                                # index list, any order
    return rng.choice(forms)


def gen_mask_calls(rng, d, n, groups=None, yshape=None):
    """dependency masks per entry built by adapt calls on the whole decision or on slices; each call names
    components of ONE random array (groups = [(lo, hi)] column ranges of the arrays)"""
    groups = groups or [(0, n)]
    mask = [[0] * n for _ in range(d)]
    calls = []
    d2 = yshape[1] if yshape and len(yshape) == 2 else None
    if yshape is not None and len(yshape) == 0:
        d2 = None
    for _ in range(rng.randint(0, 3)):
        if d2 is not None and rng.random() < 0.7:
            i_ = rng.randrange(yshape[0])
            u_ = rng.random()
            if u_ < 0.3:
                rows = list(range(i_ * d2, (i_ + 1) * d2))          # one row of the 2-D decision
                tsel = i_ if rng.random() < 0.6 else i_ - yshape[0]  # (also counted from the end)
            elif u_ < 0.6:
                j_ = rng.randrange(d2)
                rows = [i_ * d2 + j_]                                # one entry
                tsel = {'t': [i_, j_]} if rng.random() < 0.7 else {'t': [i_ - yshape[0], j_ - d2]}
            elif u_ < 0.8:
                j_ = rng.randrange(d2)
                rows = [k_ * d2 + j_ for k_ in range(yshape[0])]     # one column
                tsel = {'t': [{'all': 1}, j_]}
            else:
                a_ = rng.randrange(d2)
                b_ = rng.randint(a_ + 1, d2)
                rows = [i_ * d2 + j_ for j_ in range(a_, b_)]        # part of a row
                tsel = {'t': [i_, [a_, b_]]}
        elif d2 is None and d > 1 and rng.random() < 0.6 and (yshape is None or len(yshape) == 1):
            u_ = rng.random()
            if u_ < 0.5:
                a = rng.randrange(d)
                b = rng.randint(a + 1, d)
                rows = list(range(a, b))
                tsel = [a, b]
            elif u_ < 0.65:
                a = rng.randrange(d)
                rows = [a]
                tsel = a - d                                         # one entry counted from the end
            elif u_ < 0.8:
                a = rng.randrange(min(2, d))
                rows = list(range(a, d, 2))
                tsel = {'s': [a, None, 2]}                           # stepped slice
            else:
                rows = sorted(rng.sample(range(d), rng.randint(1, d)))
                shown = list(rows)
                rng.shuffle(shown)
                tsel = {'l': shown}                                  # index list, any order
        else:
            rows = list(range(d))
            tsel = None
        glo, ghi = rng.choice(groups)
        free = [j for j in range(glo, ghi) if all(mask[i][j] == 0 for i in rows)]
        if not free:
            continue
        k = rng.randint(1, len(free))
        J = sorted(rng.sample(free, k))
        for i in rows:
            for j in J:
                mask[i][j] = 1
        calls.append((tsel, J))
    return mask, calls


def gen_combo(rng, cfg, kind):
    """kind: 'dro' | 'ro'"""
    S = rng.randint(2, 5) if kind == 'dro' else 1
    labels, intlab = gen_labels(rng, S) if kind == 'dro' else ([0], True)
    n = rng.randint(1, 4)
    n1 = n if (n == 1 or rng.random() < 0.55) else rng.randint(1, n - 1)       # z has n1 components, w the rest
    arrays = [['z', 0, n1]] + ([['w', n1, n]] if n1 < n else [])
    d = rng.randint(1, 3)
    yshape = [d]
    if d == 1 and rng.random() < 0.35:
        yshape = []                                                 # a decision of shape ()
    elif rng.random() < 0.3:
        yshape = rng.choice([[2, 2], [2, 3], [3, 2], [1, 3]])       # 2-D decision / decision rule
        d = yshape[0] * yshape[1]
    integer_y = kind == 'dro' and rng.random() < 0.2
    r = rng.sample([0.5, 0.75, 1.0, 1.25, 1.5, 2.0, 2.5], S)
    praw = rng.sample([1, 2, 3, 4, 5, 6, 7], S)
    p = [x / sum(praw) for x in praw]
    c = [[(rng.choice([-1, 1])) * float(2 ** j) * (i + 1) for j in range(n)] for i in range(d)]
    wts = [float(rng.randint(1, 4)) for _ in range(d)]
    sense_max = rng.random() < 0.4

    ops = []
    decl = []           # (deps, op) building blocks, then a seeded linear extension
    if kind == 'dro':
        ops.append({'op': 'model', 'id': 'm', 'kind': 'dro', 'scens': S if intlab else labels})
    else:
        ops.append({'op': 'model', 'id': 'm', 'kind': 'ro'})

    steps = []

    def add(op, deps, **kw):
        s = {'sid': 's%d' % len(steps), 'op': op, 'deps': list(deps)}
        s.update(kw)
        steps.append(s)
        return s['sid']

    s_zs = [add({'op': 'rvar', 'id': an, 'm': 'm', 'shape': [hi - lo]}, []) for an, lo, hi in arrays]
    s_z = s_zs[0]

    def lin_c(ci):
        e = None
        for an, lo, hi in arrays:
            t_ = ['@', ['c', ci[lo:hi]], ['v', an]] if rng.random() < 0.5 else ['@', ['v', an], ['c', ci[lo:hi]]]
            e = t_ if e is None else ['+', e, t_]
        return e

    def yentry(i):
        if len(yshape) == 0:
            return ['v', 'y']
        if len(yshape) == 1:
            return ['i', ['v', 'y'], i]
        r_, c_ = divmod(i, yshape[1])
        if rng.random() < 0.4:
            return ['i', ['T', ['v', 'y']], {'t': [c_, r_]}]           # the same entry through the transpose
        return ['i', ['v', 'y'], {'t': [r_, c_]}]

    def box_set(rad):
        st_ = []
        for an, lo, hi in arrays:
            form = rng.randrange(3)
            if form == 0:
                st_ += [['>=', ['v', an], ['c', [-rad] * (hi - lo)]], ['<=', ['v', an], ['c', [rad] * (hi - lo)]]]
            elif form == 1:
                st_ += [['<=', ['f', 'abs', ['v', an]], ['c', rad]]]
            else:
                st_ += [['<=', ['norm', ['v', an], 'inf'], ['c', rad]]]
        return st_
    if kind == 'dro':
        s_y = add({'op': 'dvar', 'id': 'y', 'm': 'm', 'shape': yshape, 'vtype': 'I' if integer_y else 'C'}, [])
        s_t = add({'op': 'dvar', 'id': 't', 'm': 'm', 'shape': [d]}, [])
        s_f = add({'op': 'amb', 'id': 'F', 'm': 'm'}, [])
        s_supp = []
        for s in range(S):
            st = box_set(r[s])
            sc = labels[s] if intlab else {'loc': labels[s]}
            s_supp.append(add({'op': 'supp', 'amb': 'F', 'scen': sc, 'set': st}, [s_f] + s_zs))
        s_p = add({'op': 'prob', 'amb': 'F', 'set': [['==', ['v', 'm.p'], ['c', p]]]}, [s_f])
    else:
        s_y = add({'op': 'ldr', 'id': 'y', 'm': 'm', 'shape': yshape}, [])
        s_t = add({'op': 'dvar', 'id': 't', 'm': 'm', 'shape': [d]}, [])

    # adaptation histories
    py = RefPartition(S)
    pt = RefPartition(S)
    s_ad = []
    if kind == 'dro':
        for positions in gen_partition_calls(rng, S):
            py.adapt(positions)
            s_ad.append(add(_adapt_scen_op(rng, ['v', 'y'], labels, intlab, positions, 'F'), [s_y, s_f], role='adapt_y'))
        for positions in gen_partition_calls(rng, S):
            pt.adapt(positions)
            s_ad.append(add(_adapt_scen_op(rng, ['v', 't'], labels, intlab, positions, 'F'), [s_t, s_f], role='adapt_t'))
    if integer_y:
        mask, mcalls = [[0] * n for _ in range(d)], []
    else:
        mask, mcalls = gen_mask_calls(rng, d, n, [(lo, hi) for _, lo, hi in arrays], yshape)
    prev = None
    s_of = {an: sid_ for (an, lo, hi), sid_ in zip(arrays, s_zs)}
    for k_, (tsel, J) in enumerate(mcalls):
        tgt = ['v', 'y'] if tsel is None else ['i', ['v', 'y'], tsel]
        an, lo, hi = [a_ for a_ in arrays if a_[1] <= J[0] < a_[2]][0]
        pre = []
        if tsel is not None and rng.random() < 0.35:
            # the slice object is created ahead of time (possibly before other adapt() calls on the same decision)
            pre = [add({'op': 'expr', 'id': 'ysl%d' % k_, 'e': tgt}, [s_y], role='slice')]
            tgt = ['v', 'ysl%d' % k_]
        # affine adapt calls of one decision are kept in generation order (legality of later calls depends on it); a call
        # needs only the random array it names - the other array may be declared later
        sid = add({'op': 'adapt', 'tgt': tgt, 'to': zsel2(rng, an, [j - lo for j in J], hi - lo)},
                  [s_y, s_of[an]] + pre + ([prev] if prev else []), role='adapt_aff')
        prev = sid
        s_ad.append(sid)

    # optional second affinely adaptive decision q (own partition, own mask) with a static epigraph g: it makes
    # rule_var() lay out two coefficient blocks; declared before or after y
    extra = None
    if not integer_y and rng.random() < 0.45:
        dq = rng.randint(1, 2)
        cq = [[(rng.choice([-1, 1])) * float(3 ** j) * (i + 1) for j in range(n)] for i in range(dq)]
        wq = [float(rng.randint(1, 3)) for _ in range(dq)]
        q_first = rng.random() < 0.5
        if kind == 'dro':
            s_q = add({'op': 'dvar', 'id': 'q', 'm': 'm', 'shape': [dq]}, [], first=q_first)
        else:
            s_q = add({'op': 'ldr', 'id': 'q', 'm': 'm', 'shape': [dq]}, [], first=q_first)
        s_g = add({'op': 'dvar', 'id': 'g', 'm': 'm', 'shape': [dq]}, [])
        pq = RefPartition(S)
        s_adq = []
        if kind == 'dro':
            for positions in gen_partition_calls(rng, S):
                pq.adapt(positions)
                s_adq.append(add(_adapt_scen_op(rng, ['v', 'q'], labels, intlab, positions, 'F'), [s_q, s_f], role='adapt_q'))
        maskq, mq = gen_mask_calls(rng, dq, n, [(lo, hi) for _, lo, hi in arrays], [dq])
        prevq = None
        for tsel, J in mq:
            tgt = ['v', 'q'] if tsel is None else ['i', ['v', 'q'], tsel]
            an, lo, hi = [a_ for a_ in arrays if a_[1] <= J[0] < a_[2]][0]
            prevq = add({'op': 'adapt', 'tgt': tgt, 'to': zsel2(rng, an, [j - lo for j in J], hi - lo)}, [s_q, s_of[an]] + ([prevq] if prevq else []), role='adapt_aff')
            s_adq.append(prevq)
        s_ad = s_ad + s_adq + [s_q, s_g]
        extra = {'dq': dq, 'cq': cq, 'wq': wq, 'maskq': maskq, 'pq': pq.partition(), 'eq': pq.event_of()}
    # constraints (after every adapt of the decisions they use)
    cons_ids = []
    for i in range(d):
        ci = lin_c(c[i])
        yi = yentry(i)
        ti = ['i', ['v', 't'], i]
        # every declaration precedes the first expression (a decision declared after an expression was built
        # is a build-history hazard that belongs to C09 / M-HIST, not to this machine)
        add({'op': 'cons', 'id': 'cy%d' % i, 'e': ['>=', yi, ci]}, [s_y, s_t] + s_zs + s_ad, role='cons')
        add({'op': 'cons', 'id': 'ct%d' % i, 'e': ['>=', ti, ['-', yentry(i), lin_c(c[i])]]}, [s_y, s_t] + s_zs + s_ad, role='cons')
        cons_ids += ['cy%d' % i, 'ct%d' % i]
    if extra:
        for i in range(extra['dq']):
            qi = ['i', ['v', 'q'], i]
            gi = ['i', ['v', 'g'], i]
            add({'op': 'cons', 'id': 'cq%d' % i, 'e': ['>=', qi, lin_c(extra['cq'][i])]}, [s_y, s_t] + s_zs + s_ad, role='cons')
            add({'op': 'cons', 'id': 'cg%d' % i, 'e': ['>=', gi, ['-', ['i', ['v', 'q'], i], lin_c(extra['cq'][i])]]}, [s_y, s_t] + s_zs + s_ad, role='cons')
            cons_ids += ['cq%d' % i, 'cg%d' % i]
    dep_all = [s['sid'] for s in steps]
    obj_terms = [['t', wts]] + ([['g', extra['wq']]] if extra else [])

    def obj_ast():
        e_ = ['@', ['c', wts], ['v', 't']]
        if extra:
            e_ = ['+', e_, ['@', ['c', extra['wq']], ['v', 'g']]]
        return e_
    if kind == 'dro':
        obj_e = ['E', obj_ast()]
        if sense_max:
            add({'op': 'obj', 'm': 'm', 'how': 'maxinf', 'e': ['neg', obj_e], 'amb': 'F'}, [s_t, s_f] + s_ad, role='obj')
        else:
            add({'op': 'obj', 'm': 'm', 'how': 'minsup', 'e': obj_e, 'amb': 'F'}, [s_t, s_f] + s_ad, role='obj')
        add({'op': 'st', 'm': 'm', 'ids': cons_ids}, dep_all, role='st')
    else:
        setc = box_set(r[0])
        obj_e = obj_ast()
        if sense_max:
            add({'op': 'obj', 'm': 'm', 'how': 'maxmin', 'e': ['neg', obj_e], 'set': setc}, [s_t] + s_zs + ([s_g] if extra else []), role='obj')
        else:
            add({'op': 'obj', 'm': 'm', 'how': 'minmax', 'e': obj_e, 'set': setc}, [s_t] + s_zs + ([s_g] if extra else []), role='obj')
        add({'op': 'st', 'm': 'm', 'ids': cons_ids}, dep_all, role='st')

    if extra and any(s_.get('first') for s_ in steps):
        steps.sort(key=lambda s_: 0 if s_.get('first') else 1)          # q ahead of y in the canonical order
    order = gen.topo_order(rng, steps, rng.choice(['uniform', 'uniform', 'reverse', 'canonical']))
    for s in order:
        o = dict(s['op'])
        if s.get('role'):
            o['role'] = s['role']
        ops.append(o)
        if rng.random() < 0.1:
            ops.append({'op': 'gc', 'junk': rng.randint(0, 20), 'env': 1})

    # ---- closed form ------------------------------------------------------------------------
    ey, et = py.event_of(), pt.event_of()
    C = [sum(abs(c[i][j]) for j in range(n) if not mask[i][j]) for i in range(d)]
    Re = {s: max(r[k] for k in ey[s]) for s in range(S)}
    y0 = [[C[i] * Re[s] for i in range(d)] for s in range(S)]
    if integer_y:
        y0 = [[float(math.ceil(v - 1e-9)) for v in row] for row in y0]
    tval = [[max(y0[k][i] + C[i] * r[k] for k in et[s]) for i in range(d)] for s in range(S)]
    opt = sum(p[s] * sum(wts[i] * tval[s][i] for i in range(d)) for s in range(S))
    if kind == 'ro':
        opt = sum(wts[i] * tval[0][i] for i in range(d))
    if extra:
        Cq = [sum(abs(extra['cq'][i][j]) for j in range(n) if not extra['maskq'][i][j]) for i in range(extra['dq'])]
        Rq = {s: max(r[k] for k in extra['eq'][s]) for s in range(S)}
        gval = [max(Cq[i] * (Rq[s] + r[s]) for s in range(S)) for i in range(extra['dq'])]
        opt += sum(extra['wq'][i] * gval[i] for i in range(extra['dq']))
        extra['gval'] = gval
        extra.pop('eq')
    Y = [[c[i][j] if mask[i][j] else None for j in range(n)] for i in range(d)]
    expect = {'opt': -opt if sense_max else opt, 'y0': y0, 't': tval, 'Y': Y, 'C': C,
              'py': py.partition(), 'pt': pt.partition(), 'mask': mask}
    pool = ['def', 'ort', 'grb'] if integer_y else ['def', 'lpg', 'ort', 'grb', 'eco']
    return {'kind': 'combo-' + kind, 'ops': ops, 'steps': steps, 'model_op': ops[0], 'expect': expect, 'labels': labels, 'intlab': intlab, 'S': S,
            'n': n, 'arrays': arrays, 'd': d, 'yshape': yshape, 'extra': extra, 'obj_terms': obj_terms, 'c': c, 'r': r, 'p': p, 'integer_y': integer_y, 'pool': pool, 'sense_max': sense_max}


def gen_mix(rng, cfg):
    """two or three decisions with different partitions in one expression (built in a random association and operator
    form); optimum from a direct reference LP"""
    S = rng.randint(2, 5)
    labels, intlab = gen_labels(rng, S)
    u = rng.sample([0.5, 1.25, 2.0, 2.75, 3.5, 4.25, 5.0], S)
    praw = rng.sample([1, 2, 3, 4, 5, 6, 7], S)
    p = [x / sum(praw) for x in praw]
    nd = rng.choice([2, 2, 3])
    names = ['x%d' % (i + 1) for i in range(nd)]
    ops = [{'op': 'model', 'id': 'm', 'kind': 'dro', 'scens': S if intlab else labels},
           {'op': 'rvar', 'id': 'z', 'm': 'm', 'shape': []}]
    ops += [{'op': 'dvar', 'id': nm, 'm': 'm'} for nm in names]
    ops.append({'op': 'amb', 'id': 'F', 'm': 'm'})
    for s in range(S):
        sc = labels[s] if intlab else {'loc': labels[s]}
        ops.append({'op': 'supp', 'amb': 'F', 'scen': sc,
                    'set': [['>=', ['v', 'z'], ['c', u[s] - 1.0]], ['<=', ['v', 'z'], ['c', u[s]]]]})
    ops.append({'op': 'prob', 'amb': 'F', 'set': [['==', ['v', 'm.p'], ['c', p]]]})
    parts = [RefPartition(S) for _ in names]
    calls = []
    for nm, rp in zip(names, parts):
        for positions in gen_partition_calls(rng, S):
            rp.adapt(positions)
            calls.append(_adapt_scen_op(rng, ['v', nm], labels, intlab, positions, 'F'))
    rng.shuffle(calls)
    ops += calls
    ws = [float(rng.randint(1, 3)) for _ in names]

    def term(nm):
        f = rng.randrange(5)
        v = ['v', nm]
        return v if f < 2 else ['*', ['c', 1.0], v] if f == 2 else ['*', v, ['c', 1.0]] if f == 3 else ['neg', ['neg', v]]

    def plus(a, b):
        return ['+', a, b] if rng.random() < 0.7 else ['-', a, ['neg', b]]
    order = list(names)
    rng.shuffle(order)
    ts = [term(nm) for nm in order]
    if len(ts) == 3 and rng.random() < 0.5:
        tot = plus(ts[0], plus(ts[1], ts[2]))           # right association: the second refinement is computed first
    else:
        tot = ts[0]
        for t in ts[1:]:
            tot = plus(tot, t)
    cf = rng.randrange(3)
    c1 = ['>=', tot, ['v', 'z']] if cf == 0 else ['<=', ['v', 'z'], tot] if cf == 1 else ['>=', ['-', tot, ['v', 'z']], ['c', 0.0]]
    obj = ['*', ['c', ws[0]], ['v', names[0]]]
    for w_, nm in zip(ws[1:], names[1:]):
        obj = ['+', obj, ['*', ['c', w_], ['v', nm]]]
    ops.append({'op': 'cons', 'id': 'c1', 'e': c1})
    ops += [{'op': 'cons', 'id': 'b%d' % i, 'e': ['>=', ['v', nm], ['c', 0.0]]} for i, nm in enumerate(names)]
    ops += [{'op': 'obj', 'm': 'm', 'how': 'minsup', 'e': ['E', obj], 'amb': 'F'},
            {'op': 'st', 'm': 'm', 'ids': ['c1'] + ['b%d' % i for i in range(nd)]}]
    es = [rp.partition() for rp in parts]
    return {'kind': 'mix', 'ops': ops, 'labels': labels, 'intlab': intlab, 'S': S, 'u': u, 'p': p, 'names': names,
            'expect': {'parts': es, 'p1': es[0], 'p2': es[1], 'w': ws}, 'pool': ['def', 'lpg', 'ort', 'grb', 'eco']}


def _mix_parts(case):
    ex = case['expect']
    return ex.get('parts') or [ex['p1'], ex['p2']]


def mix_reference(case):
    """direct LP over the per-event values (no RSOME involved)"""
    from scipy.optimize import linprog
    lp = W.REAL.get('linprog', linprog)
    es = _mix_parts(case)
    ws = case['expect']['w']
    S, u, p = case['S'], case['u'], case['p']
    offs, n = [], 0
    for e in es:
        offs.append(n)
        n += len(e)
    idx = [{s: k for k, ev in enumerate(e) for s in ev} for e in es]
    cost = np.zeros(n)
    A, b = [], []
    for s in range(S):
        row = np.zeros(n)
        for i in range(len(es)):
            cost[offs[i] + idx[i][s]] += p[s] * ws[i]
            row[offs[i] + idx[i][s]] = -1
        A.append(row)
        b.append(-u[s])
    res = lp(cost, A_ub=np.array(A), b_ub=np.array(b), bounds=[(0, None)] * n)
    return float(res.fun)


def gen_ruleprobe(rng, cfg):
    """dro model whose optimal decision rule is UNIQUE and differs from event to event: y(z) = a_e + k_e z has to dominate |z|
    on the (asymmetric) support of every scenario of its event, E[z | s] is pinned, the objective is the expectation of y.
    Per event the rule is the unique vertex of a tiny LP solved directly here."""
    from scipy.optimize import linprog
    lp = W.REAL.get('linprog', linprog)
    for _ in range(50):
        S = rng.randint(2, 5)
        labels, intlab = gen_labels(rng, S)
        lo = [round(-rng.uniform(0.3, 2.0), 2) for _ in range(S)]
        hi = [round(rng.uniform(0.3, 2.5), 2) for _ in range(S)]
        for s in range(S):
            u = rng.random()
            if u < 0.3:
                lo[s] = round(rng.uniform(0.2, 0.8), 2)         # support on one side of zero
                hi[s] = round(lo[s] + rng.uniform(0.5, 2.0), 2)
            elif u < 0.5:
                hi[s] = round(-rng.uniform(0.2, 0.8), 2)
                lo[s] = round(hi[s] - rng.uniform(0.5, 2.0), 2)
        mu = [round(lo[s] + (hi[s] - lo[s]) * rng.uniform(0.2, 0.8), 3) for s in range(S)]
        praw = rng.sample([1, 2, 3, 4, 5, 6, 7], S)
        p = [x / sum(praw) for x in praw]
        rp = RefPartition(S)
        calls = []
        for positions in gen_partition_calls(rng, S):
            rp.adapt(positions)
            calls.append(_adapt_scen_op(rng, ['v', 'y'], labels, intlab, positions, 'F'))
        events = rp.partition()
        rules, ok = {}, True
        for ev in events:
            # minimise sum_{s in ev} p_s (a + k mu_s)  s.t.  a + k z >= |z| at both ends of every scenario's support (and at 0)
            c = [sum(p[s] for s in ev), sum(p[s] * mu[s] for s in ev)]
            A, b = [], []
            for s in ev:
                for zv in (lo[s], hi[s]) + ((0.0,) if lo[s] < 0 < hi[s] else ()):
                    A.append([-1.0, -zv])
                    b.append(-abs(zv))
            res = lp(c, A_ub=np.array(A), b_ub=np.array(b), bounds=[(None, None), (None, None)])
            if res.status != 0:
                ok = False
                break
            # uniqueness: the optimum must deteriorate in every direction along the active constraints (checked by perturbing c)
            alt = [lp([c[0] + d0, c[1] + d1], A_ub=np.array(A), b_ub=np.array(b), bounds=[(None, None), (None, None)])
                   for d0, d1 in ((1e-3, 0), (-1e-3, 0), (0, 1e-3), (0, -1e-3))]
            if any(r_.status != 0 or np.max(np.abs(r_.x - res.x)) > 1e-6 for r_ in alt):
                ok = False
                break
            rules[tuple(ev)] = (float(res.x[0]), float(res.x[1]))
        if not ok:
            continue
        ks = sorted(set(round(v[1], 6) for v in rules.values()))
        if len(events) > 1 and len(ks) < 2 and rng.random() < 0.8:
            continue                                            # prefer cases whose events really get different rules
        ops = [{'op': 'model', 'id': 'm', 'kind': 'dro', 'scens': S if intlab else labels},
               {'op': 'rvar', 'id': 'z', 'm': 'm', 'shape': []}, {'op': 'dvar', 'id': 'y', 'm': 'm'},
               {'op': 'amb', 'id': 'F', 'm': 'm'}]
        for s in range(S):
            sc = labels[s] if intlab else {'loc': labels[s]}
            ops.append({'op': 'supp', 'amb': 'F', 'scen': sc, 'set': [['>=', ['v', 'z'], ['c', lo[s]]], ['<=', ['v', 'z'], ['c', hi[s]]]]})
            ops.append({'op': 'expt', 'amb': 'F', 'scen': sc, 'set': [['==', ['E', ['v', 'z']], ['c', mu[s]]]]})
        ops.append({'op': 'prob', 'amb': 'F', 'set': [['==', ['v', 'm.p'], ['c', p]]]})
        ad = calls + [{'op': 'adapt', 'tgt': ['v', 'y'], 'to': ['v', 'z']}]
        rng.shuffle(ad)
        ops += ad
        ops += [{'op': 'cons', 'id': 'c1', 'e': ['>=', ['v', 'y'], ['v', 'z']]},
                {'op': 'cons', 'id': 'c2', 'e': ['>=', ['v', 'y'], ['neg', ['v', 'z']]]},
                {'op': 'obj', 'm': 'm', 'how': 'minsup', 'e': ['E', ['v', 'y']], 'amb': 'F'},
                {'op': 'st', 'm': 'm', 'ids': ['c1', 'c2']}]
        opt = sum(p[s] * (rules[tuple(ev)][0] + rules[tuple(ev)][1] * mu[s]) for ev in events for s in ev)
        return {'kind': 'ruleprobe', 'ops': ops, 'labels': labels, 'intlab': intlab, 'S': S, 'p': p,
                'expect': {'py': events, 'rules': [[list(ev), rules[tuple(ev)][0], rules[tuple(ev)][1]] for ev in events], 'opt': opt},
                'pool': ['def', 'lpg', 'ort', 'grb', 'eco'], 'lo': lo, 'hi': hi, 'mu': mu}
    return gen_mix(rng, cfg)


ILLEGAL = ['redeclare_scen', 'redeclare_scen_after_exhaust', 'redeclare_dep', 'affine_int', 'foreign_rvar',
           'unknown_label', 'adapt_after_use', 'adapt_after_formulate', 'ldr_adapt_after_use', 'ldr_redeclare_dep',
           'ldr_foreign_rvar', 'affine_times_random', 'ldr_times_random', 'convex_of_adaptive']


def gen_illegal(rng, cfg):
    which = rng.choice(cfg.get('illegal', ILLEGAL))
    S = rng.randint(2, 5)
    labels, intlab = gen_labels(rng, S)
    n = rng.randint(2, 4)
    ops = []
    if which.startswith('ldr'):
        ops += [{'op': 'model', 'id': 'm', 'kind': 'ro'}, {'op': 'rvar', 'id': 'z', 'm': 'm', 'shape': [n]},
                {'op': 'ldr', 'id': 'y', 'm': 'm', 'shape': [2]}, {'op': 'dvar', 'id': 'x', 'm': 'm'}]
        j = rng.randrange(n)
        if which == 'ldr_adapt_after_use':
            if rng.random() < 0.5:
                ops.append({'op': 'adapt', 'tgt': ['v', 'y'], 'to': zsel('z', [j])})
            ops.append({'op': 'cons', 'id': 'c', 'e': ['<=', ['+', ['i', ['v', 'y'], 0], ['v', 'x']], ['c', 3.0]]})
            k = (j + 1) % n
            ops.append({'op': 'adapt', 'tgt': ['v', 'y'], 'to': zsel('z', [k]), 'expect': 'raise'})
        elif which == 'ldr_redeclare_dep':
            ops.append({'op': 'adapt', 'tgt': ['v', 'y'], 'to': zsel('z', [j])})
            tgt = rng.choice([['v', 'y'], ['i', ['v', 'y'], 0], ['i', ['v', 'y'], [0, 2]]])
            to = rng.choice([zsel('z', [j]), ['v', 'z']])
            ops.append({'op': 'adapt', 'tgt': tgt, 'to': to, 'expect': 'raise'})
        elif which == 'ldr_times_random':
            # a decision rule (or its sum with static decisions) times a random variable is not a robust linear model:
            # something between building the product and solving has to raise
            ops.append({'op': 'dvar', 'id': 't', 'm': 'm'})
            ops.append({'op': 'dvar', 'id': 'x2', 'm': 'm', 'shape': [2]})
            ops.append({'op': 'adapt', 'tgt': rng.choice([['v', 'y'], ['i', ['v', 'y'], 0], ['i', ['v', 'y'], [0, 2]]]),
                        'to': rng.choice([zsel('z', [j]), ['v', 'z']])})
            yv, xv = ['v', 'y'], ['v', 'x2']
            vec = [yv, ['+', yv, xv], ['+', xv, yv], ['-', yv, xv], ['-', xv, yv], ['*', ['c', 2.0], yv], ['neg', yv], ['+', yv, ['c', [1.0, -0.5]]]]
            z2, z0 = ['i', ['v', 'z'], [0, 2]], ['i', ['v', 'z'], 0]
            a = rng.choice(vec)
            e = rng.choice([['*', a, z2], ['*', z2, a], ['@', a, z2], ['@', z2, a], ['*', ['i', yv, 0], z0], ['*', z0, ['i', yv, 0]],
                            ['*', ['+', ['i', yv, 0], ['v', 'x']], z0]])
            ops.append({'op': 'expr', 'id': 'bad', 'e': e, 'expect': 'raise_tail'})
            zset = [['<=', ['norm', ['v', 'z'], 'inf'], ['c', 1.0]]]
            ops += [{'op': 'cons', 'id': 'cb', 'e': ['<=', ['sum', ['v', 'bad']], ['v', 't']], 'expect': 'raise_tail'},
                    {'op': 'forall', 'id': 'cb', 'set': zset, 'expect': 'raise_tail'},
                    {'op': 'cons', 'id': 'cy', 'e': ['<=', ['v', 'y'], ['c', 1.0]], 'expect': 'raise_tail'},
                    {'op': 'forall', 'id': 'cy', 'set': zset, 'expect': 'raise_tail'},
                    {'op': 'cons', 'id': 'cy2', 'e': ['>=', ['v', 'y'], ['c', -1.0]], 'expect': 'raise_tail'},
                    {'op': 'forall', 'id': 'cy2', 'set': zset, 'expect': 'raise_tail'},
                    {'op': 'cons', 'id': 'cx', 'e': ['<=', ['f', 'abs', ['v', 'x2']], ['c', 1.0]], 'expect': 'raise_tail'},
                    {'op': 'cons', 'id': 'cx1', 'e': ['<=', ['f', 'abs', ['v', 'x']], ['c', 1.0]], 'expect': 'raise_tail'},
                    {'op': 'st', 'm': 'm', 'ids': ['cb', 'cy', 'cy2', 'cx', 'cx1'], 'expect': 'raise_tail'},
                    {'op': 'obj', 'm': 'm', 'how': 'min', 'e': ['v', 't'], 'expect': 'raise_tail'},
                    {'op': 'solve', 'm': 'm', 'solver': rng.choice(['def', 'grb', 'ort']), 'expect': 'raise_tail'}]
        else:
            ops += [{'op': 'model', 'id': 'm2', 'kind': 'ro'}, {'op': 'rvar', 'id': 'z2', 'm': 'm2', 'shape': [n]}]
            ops.append({'op': 'adapt', 'tgt': ['v', 'y'], 'to': ['v', 'z2'], 'expect': 'raise'})
        return {'kind': 'illegal', 'which': which, 'ops': ops, 'labels': labels}
    vt = 'I' if which == 'affine_int' else 'C'
    if which == 'affine_int':
        vt = rng.choice(['I', 'B', 'CI', 'IC', 'BC', 'IB'])        # per-entry type strings: y has two entries
    ops += [{'op': 'model', 'id': 'm', 'kind': 'dro', 'scens': S if intlab else labels},
            {'op': 'rvar', 'id': 'z', 'm': 'm', 'shape': [n]},
            {'op': 'dvar', 'id': 'y', 'm': 'm', 'shape': [2], 'vtype': vt},
            {'op': 'amb', 'id': 'F', 'm': 'm'}]
    ref_p = RefPartition(S)
    if which in ('redeclare_scen', 'redeclare_scen_after_exhaust'):
        calls = gen_partition_calls(rng, S)
        if which == 'redeclare_scen_after_exhaust':
            pos = list(range(S))
            rng.shuffle(pos)
            calls, k = [], 0
            while k < S:
                m_ = rng.randint(1, S - k)
                calls.append(pos[k:k + m_])
                k += m_
        elif not calls:
            calls = [[rng.randrange(S)]]
        for positions in calls:
            ref_p.adapt(positions)
            ops.append(_adapt_scen_op(rng, ['v', 'y'], labels, intlab, positions, 'F'))
        again = [rng.choice(sorted(ref_p.moved))]
        if rng.random() < 0.4:
            others = [s for s in range(S) if s not in again]
            if others:
                again.append(rng.choice(others))
        bad = _adapt_scen_op(rng, ['v', 'y'], labels, intlab, again, 'F')
        bad['expect'] = 'raise'
        ops.append(bad)
    elif which == 'unknown_label':
        bad_label = 777 if intlab or isinstance(labels[0], int) else 'nope'
        ops.append({'op': 'adapt', 'tgt': ['v', 'y'], 'to': {'scen': bad_label}, 'expect': 'raise'})
    elif which == 'redeclare_dep':
        j = rng.randrange(n)
        tgt0 = rng.choice([['v', 'y'], ['i', ['v', 'y'], [0, 1]], ['i', ['v', 'y'], [0, 2]]])
        ops.append({'op': 'adapt', 'tgt': tgt0, 'to': zsel('z', [j])})
        tgt = rng.choice([['v', 'y'], ['i', ['v', 'y'], [0, 1]]])
        to = rng.choice([zsel('z', [j]), ['v', 'z']])
        ops.append({'op': 'adapt', 'tgt': tgt, 'to': to, 'expect': 'raise'})
    elif which == 'affine_int':
        if len(vt) == 2:
            ipos = [k_ for k_, ch in enumerate(vt) if ch != 'C']
            tgt = rng.choice([['v', 'y'], ['i', ['v', 'y'], [ipos[0], ipos[0] + 1]], ['i', ['v', 'y'], ipos[0]]])
        else:
            tgt = rng.choice([['v', 'y'], ['i', ['v', 'y'], [0, 1]], ['i', ['v', 'y'], 1]])
        ops.append({'op': 'adapt', 'tgt': tgt, 'to': rng.choice([['v', 'z'], zsel('z', [0])]), 'expect': 'raise'})
    elif which == 'foreign_rvar':
        ops += [{'op': 'model', 'id': 'm2', 'kind': 'dro', 'scens': S}, {'op': 'rvar', 'id': 'z2', 'm': 'm2', 'shape': [n]}]
        tgt = rng.choice([['v', 'y'], ['i', ['v', 'y'], [0, 1]]])
        ops.append({'op': 'adapt', 'tgt': tgt, 'to': rng.choice([['v', 'z2'], zsel('z2', [0])]), 'expect': 'raise'})
    elif which in ('adapt_after_use', 'adapt_after_formulate'):
        r = 1.0
        ops += [{'op': 'supp', 'amb': 'F', 'scen': None, 'set': [['<=', ['norm', ['v', 'z'], 'inf'], ['c', r]]]},
                {'op': 'dvar', 'id': 't', 'm': 'm'},
                {'op': 'cons', 'id': 'c', 'e': ['>=', ['i', ['v', 'y'], 0], ['@', ['c', [1.0] * n], ['v', 'z']]]},
                {'op': 'cons', 'id': 'c2', 'e': ['>=', ['v', 't'], ['sum', ['v', 'y']]]},
                {'op': 'cons', 'id': 'c3', 'e': ['<=', ['v', 'y'], ['c', 10.0]]},
                {'op': 'st', 'm': 'm', 'ids': ['c', 'c2', 'c3']},
                {'op': 'obj', 'm': 'm', 'how': 'minsup', 'e': ['E', ['v', 't']], 'amb': 'F'}]
        if which == 'adapt_after_formulate':
            ops.append(rng.choice([{'op': 'formulate', 'm': 'm', 'primal': True},
                                   {'op': 'solve', 'm': 'm', 'solver': rng.choice(['def', 'grb', 'ort'])}]))
        if rng.random() < 0.5:
            bad = _adapt_scen_op(rng, ['v', 'y'], labels, intlab, [rng.randrange(S)], 'F')
        else:
            bad = {'op': 'adapt', 'tgt': rng.choice([['v', 'y'], ['i', ['v', 'y'], [0, 1]]]), 'to': zsel('z', [0])}
        bad['expect'] = 'raise'
        ops.append(bad)
    elif which == 'convex_of_adaptive':
        # an affinely adaptive decision inside a convex function (or as its affine offset) cannot be represented: its dependence
        # on z must not be dropped silently - some step up to the solve has to raise
        ops += [{'op': 'dvar', 'id': 'x', 'm': 'm', 'shape': [2]}, {'op': 'dvar', 'id': 't', 'm': 'm'},
                {'op': 'supp', 'amb': 'F', 'scen': None, 'set': [['<=', ['norm', ['v', 'z'], 'inf'], ['c', 1.0]]]},
                {'op': 'adapt', 'tgt': rng.choice([['v', 'y'], ['i', ['v', 'y'], [0, 2]], ['i', ['v', 'y'], 0]]),
                 'to': rng.choice([zsel('z', [0]), ['v', 'z']])}]
        yv, xv = ['v', 'y'], ['v', 'x']
        y0, x0 = ['i', yv, 0], ['i', xv, 0]
        inner = rng.choice([y0, ['+', y0, ['i', xv, 1]], ['-', x0, y0], ['*', ['c', 2.0], y0], ['-', y0, ['c', 0.5]]])
        form = rng.randrange(5)
        if form == 0:
            bad = ['f', 'abs', inner]
        elif form == 1:
            bad = ['+', ['f', 'abs', x0], y0]                                # convex in x, the adaptive decision is the offset
        elif form == 2:
            bad = ['-', ['f', 'abs', inner], x0]
        elif form == 3:
            bad = ['*', ['c', 3.0], ['f', 'abs', inner]]
        else:
            bad = ['norm', rng.choice([yv, ['+', yv, xv], ['-', xv, yv]]), rng.choice([1, 2, 'inf'])]
        ops.append({'op': 'cons', 'id': 'cb', 'e': ['<=', bad, ['v', 't']], 'expect': 'raise_tail'})
        ops += [{'op': 'cons', 'id': 'cx', 'e': ['<=', ['f', 'abs', ['v', 'x']], ['c', 1.0]], 'expect': 'raise_tail'},
                {'op': 'cons', 'id': 'cy', 'e': ['>=', ['v', 'y'], ['@', ['c', [1.0] * n], ['v', 'z']]], 'expect': 'raise_tail'},
                {'op': 'cons', 'id': 'cy2', 'e': ['<=', ['v', 'y'], ['c', 10.0]], 'expect': 'raise_tail'},
                {'op': 'st', 'm': 'm', 'ids': ['cb', 'cx', 'cy', 'cy2'], 'expect': 'raise_tail'},
                {'op': 'obj', 'm': 'm', 'how': 'minsup', 'e': ['E', ['v', 't']], 'amb': 'F', 'expect': 'raise_tail'},
                {'op': 'solve', 'm': 'm', 'solver': rng.choice(['def', 'grb', 'ort']), 'expect': 'raise_tail'}]
    elif which == 'affine_times_random':
        # an affinely adaptive expression (the decision itself, or a sum / difference / multiple with static decisions and
        # numbers, adaptive part on either side) times a random variable: somewhere between building the expression and
        # solving a model that uses it (inside E or not), RSOME has to raise
        ops += [{'op': 'dvar', 'id': 'x', 'm': 'm', 'shape': [2]}, {'op': 'dvar', 'id': 't', 'm': 'm'},
                {'op': 'supp', 'amb': 'F', 'scen': None, 'set': [['<=', ['norm', ['v', 'z'], 'inf'], ['c', 1.0]]]},
                {'op': 'adapt', 'tgt': rng.choice([['v', 'y'], ['i', ['v', 'y'], [0, 2]]]), 'to': rng.choice([zsel('z', [0]), ['v', 'z']])}]
        yv, xv = ['v', 'y'], ['v', 'x']
        y0, y1 = ['i', yv, 0], ['i', yv, 1]
        if rng.random() < cfg.get('p_stale_slice', 0.3):
            # the slice / element objects that enter the product were created BEFORE the adaptation was declared
            ad_ = ops.pop()
            ops += [{'op': 'expr', 'id': 'ysl', 'e': ['i', yv, [0, 2]]}, {'op': 'expr', 'id': 'ys0', 'e': ['i', yv, 0]},
                    {'op': 'expr', 'id': 'ys1', 'e': ['i', yv, 1]}, ad_]
            yv, y0, y1 = ['v', 'ysl'], ['v', 'ys0'], ['v', 'ys1']
        vec = {'y': yv, 'y+x': ['+', yv, xv], 'x+y': ['+', xv, yv], 'y-x': ['-', yv, xv], 'x-y': ['-', xv, yv],
               '2y+x0': ['+', ['*', ['c', 2.0], yv], ['i', xv, 0]], 'y+c': ['+', yv, ['c', [1.0, -0.5]]], '-y': ['neg', yv],
               'y*2': ['*', yv, ['c', 2.0]], '(y+x)-x': ['-', ['+', yv, xv], xv]}
        sca = {'y0': y0, 'y0+x0': ['+', y0, ['i', xv, 0]], 'y1-x0': ['-', y1, ['i', xv, 0]],
               'x1+y0': ['+', ['i', xv, 1], y0], 'sum(y)+x0': ['+', ['sum', yv], ['i', xv, 0]]}
        z2, z0 = ['i', ['v', 'z'], [0, 2]], ['i', ['v', 'z'], 0]
        form = rng.randrange(6)
        if form == 0:
            a = sca[rng.choice(sorted(sca))]
            e = ['*', a, z0] if rng.random() < 0.5 else ['*', z0, a]
        elif form == 1:
            a = vec[rng.choice(sorted(vec))]
            e = ['*', a, z0] if rng.random() < 0.5 else ['*', z0, a]
        elif form == 2:
            a = vec[rng.choice(sorted(vec))]
            e = ['*', a, z2] if rng.random() < 0.5 else ['*', z2, a]
        elif form == 3:
            e = ['@', vec[rng.choice(sorted(vec))], z2]
        elif form == 4:
            e = ['@', z2, vec[rng.choice(sorted(vec))]]
        else:
            e = ['sum', ['*', vec[rng.choice(sorted(vec))], z2]]
        ops.append({'op': 'expr', 'id': 'bad', 'e': e, 'expect': 'raise_tail'})
        use = rng.randrange(3)
        tot = ['sum', ['v', 'bad']]
        if use == 0:        # robust row
            ops.append({'op': 'cons', 'id': 'cb', 'e': ['<=', tot, ['v', 't']], 'expect': 'raise_tail'})
        elif use == 1:      # worst-case expectation row
            ops.append({'op': 'cons', 'id': 'cb', 'e': ['<=', ['E', tot], ['v', 't']], 'expect': 'raise_tail'})
        else:               # inside the objective
            ops.append({'op': 'cons', 'id': 'cb', 'e': ['>=', ['v', 't'], ['c', -5.0]], 'expect': 'raise_tail'})
        ops += [{'op': 'cons', 'id': 'cx', 'e': ['<=', ['f', 'abs', ['v', 'x']], ['c', 1.0]], 'expect': 'raise_tail'},
                {'op': 'cons', 'id': 'cy', 'e': ['<=', ['v', 'y'], ['c', 1.0]], 'expect': 'raise_tail'},
                {'op': 'cons', 'id': 'cy2', 'e': ['>=', ['v', 'y'], ['c', -1.0]], 'expect': 'raise_tail'},
                {'op': 'st', 'm': 'm', 'ids': ['cb', 'cx', 'cy', 'cy2'], 'expect': 'raise_tail'},
                {'op': 'obj', 'm': 'm', 'how': 'minsup', 'e': ['E', ['+', ['v', 't'], tot]] if use == 2 else ['E', ['v', 't']],
                 'amb': 'F', 'expect': 'raise_tail'},
                {'op': 'solve', 'm': 'm', 'solver': rng.choice(['def', 'grb', 'ort']), 'expect': 'raise_tail'}]
    return {'kind': 'illegal', 'which': which, 'ops': ops, 'labels': labels, 'intlab': intlab}


def gen_case(seed, cfg):
    rng = random.Random(seed)
    kinds = cfg.get('kinds', ['combo-dro'] * 5 + ['combo-ro'] * 2 + ['mix'] * 2 + ['illegal'] * 3 + ['ruleprobe'] * 2)
    k = rng.choice(kinds)
    if k == 'ruleprobe':
        case = gen_ruleprobe(rng, cfg)
        k = case['kind']
    elif k == 'combo-dro':
        case = gen_combo(rng, cfg, 'dro')
    elif k == 'combo-ro':
        case = gen_combo(rng, cfg, 'ro')
    elif k == 'mix':
        case = gen_mix(rng, cfg)
    else:
        case = gen_illegal(rng, cfg)
    case['seed'] = seed
    if k != 'illegal':
        sv = rng.choice(case['pool'])
        case['solves'] = [{'op': 'solve', 'm': 'm', 'solver': sv, 'display': rng.random() < 0.2}]
        if rng.random() < 0.3:
            # a failed solve, then a healthy one: queries must describe the new solution
            from machines.hist import FAULTS_BY_ENGINE
            sv2 = rng.choice(case['pool'])
            f = dict(rng.choice([f for f in FAULTS_BY_ENGINE[sv2] if f['kind'] in ('status', 'raise') and f.get('exc') != 'KeyboardInterrupt']))
            case['solves'] = [{'op': 'solve', 'm': 'm', 'solver': sv2, 'fault': f}] + case['solves']
        if rng.random() < 0.3:
            case['solves'] = case['solves'] + [{'op': 'formulate', 'm': 'm', 'primal': False},
                                               {'op': 'solve', 'm': 'm', 'solver': rng.choice(case['pool'])}]
        zv = [round(rng.uniform(-0.5, 0.5), 2) for _ in range(case.get('n', 1))]
        case['zval'] = zv
        if k == 'combo-ro':
            case['cvx_atoms'] = gen_cvx_atoms(rng, case['d'])
        if k.startswith('combo') and rng.random() < 0.4:
            # after the checks: the model grows, then a solve fails; whatever the queries return afterwards must be ONE solution
            from machines.hist import FAULTS_BY_ENGINE as _FB
            svp = rng.choice(case['pool'])
            fp = dict(rng.choice([f for f in _FB[svp] if f['kind'] in ('status', 'raise', 'none_solver') and f.get('exc') != 'KeyboardInterrupt']))
            case['post'] = {'bump': rng.choice([0.5, 1.0, 2.0]), 'solver': svp, 'fault': fp,
                            'final_solver': rng.choice(case['pool'])}
    return case


# --------------------------------------------------------------------------------------------------
# oracles
# --------------------------------------------------------------------------------------------------

def close(a, b, tol=TOL):
    return abs(a - b) <= tol * (1.0 + abs(b))


def _series_to_rows(val, S):
    """x.get() -> list over scenario positions of flat float lists, plus the labels seen (or None)"""
    import pandas as pd
    if isinstance(val, pd.Series):
        rows = [np.asarray(v, float).reshape(-1) for v in val.values]
        return rows, [x for x in val.index]
    return [np.asarray(val, float).reshape(-1)] * S, None


def rs_mod():
    return interp.RS.get()


def gen_cvx_atoms(rng, d):
    """convex / concave atoms of the static decision t with a multiplier and an affine offset"""
    out = []
    te = ['v', 't']
    for _ in range(rng.randint(1, 3)):
        c = rng.choice([0.25, 2.5, 3.0, -1.5, 1.0])
        off = rng.choice([0.0, 1.0, -2.0])
        k = rng.choice(['abs', 'n1', 'n2', 'ninf', 'square', 'sumsqr'])
        inner = ['-', te, ['c', [round(rng.uniform(-1, 1), 2) for _ in range(d)]]]
        if k == 'abs':
            a = ['f', 'abs', inner]
        elif k in ('n1', 'n2', 'ninf'):
            a = ['norm', inner, {'n1': 1, 'n2': 2, 'ninf': 'inf'}[k]]
        elif k == 'square':
            a = ['f', 'square', inner]
        else:
            a = ['f', 'sumsqr', inner]
        out.append(['+', ['*', ['c', c], a], ['c', off]])
    return out


def _yent(y, i, case):
    ys = case.get('yshape')
    if ys is None:
        ys = [case['d']]
    if len(ys) == 0:
        return y
    if len(ys) == 1:
        return y[i]
    return y[divmod(i, ys[1])]


def _call_rows(obj, S):
    """per-scenario values through expression evaluation obj() (does not use the labelling code of get())"""
    return _series_to_rows(obj(), S)


def check_case(case, props):
    viols = []
    stats = {'runs': 1, 'events': 0, 'probes': {}, 'inconclusive': {}, 'faults_fired': {}, 'sim_seconds': 0.0,
             'nontrivial_sigs': [], 'sigs': [], 'checks_c13': 0, 'checks_c12': 0, 'illegal_attempted': {},
             'partitions': [], 'masks': [], 'solves_healthy': {}, 'solves_faulted': {}}

    def probe(k):
        stats['probes'][k] = stats['probes'].get(k, 0) + 1

    def viol(prop, oracle, detail, exc=None, tags=()):
        if prop not in props:
            return
        tg = set(tags) | {case['kind']} | ({case['which']} if 'which' in case else set())
        if not case.get('intlab', True) and any(op['op'] == 'adapt' and isinstance(op.get('to'), dict) and 'fset' in op['to']
                                                for op in case['ops']):
            tg.add('scen_object_adapt_nondefault_labels')
        viols.append({'prop': prop, 'oracle': oracle, 'sig': '%s|%s|%s|%s|%s' % (prop, oracle, case['kind'].split('-')[0], case.get('which', ''), exc or ''),
                      'detail': detail, 'tags': sorted(tg), 'exc': exc or ''})

    rs = interp.RS.get()
    w = W.World()
    it = interp.Interp(rs, w)
    ops = list(case['ops'])
    with W.Bound(w, rs):
        for op in ops:
            rec = it.step(op)
            stats['events'] += 1
            if op.get('expect') == 'raise_tail':
                # the illegal construct starts here: some step from here to the end of the history has to raise
                if not rec['ok']:
                    stats['illegal_attempted'][case['which']] = stats['illegal_attempted'].get(case['which'], 0) + 1
                    stats['checks_c13'] += 1
                    break
                if op is ops[-1]:
                    stats['illegal_attempted'][case['which']] = stats['illegal_attempted'].get(case['which'], 0) + 1
                    stats['checks_c13'] += 1
                    bad_ = [o for o in ops if o.get('expect') == 'raise_tail'][0]
                    viol('C13', 'illegal-accepted', 'illegal construct (%s) was accepted silently up to and including the solve: %s'
                         % (case['which'], _short(bad_)), tags=[case['which']])
                continue
            if op.get('expect') == 'raise':
                stats['illegal_attempted'][case['which']] = stats['illegal_attempted'].get(case['which'], 0) + 1
                stats['checks_c13'] += 1
                if rec['ok']:
                    viol('C13', 'illegal-accepted', 'illegal declaration (%s) was accepted silently: %s'
                         % (case['which'], _short(op)), tags=[case['which']])
                break
            if not rec['ok']:
                viol('C13', 'legal-history-raises', 'legal step %s raised %s: %s' % (_short(op), rec['exc'], rec.get('msg')),
                     exc=':'.join(rec['exc']))
                break
        else:
            if case['kind'] != 'illegal':
                _check_solved(case, it, w, viol, stats, probe, props)
    for kk, vv in w.fired.items():
        stats['faults_fired'][kk] = stats['faults_fired'].get(kk, 0) + vv
    stats['sim_seconds'] += w.simulated_seconds
    sig = digest([case['kind'], case.get('which'), case.get('expect', {}).get('py'), case.get('expect', {}).get('pt'),
                  case.get('expect', {}).get('mask'), case.get('expect', {}).get('p1'), case.get('expect', {}).get('p2'),
                  [(o['op'], _short(o)) for o in case['ops'] if o['op'] == 'adapt']])
    stats['sigs'].append(sig)
    ex = case.get('expect', {})
    nontriv = case['kind'] == 'illegal' or any(len(ex.get(k, [[]])) >= 2 for k in ('py', 'pt', 'p1', 'p2')) or \
        any(0 < sum(row) < len(row) for row in ex.get('mask', []))
    if nontriv:
        stats['nontrivial_sigs'].append(sig)
    for k in ('py', 'pt', 'p1', 'p2'):
        if k in ex:
            stats['partitions'].append(digest(sorted(tuple(e) for e in ex[k])) + ':%d' % case['S'])
    if 'mask' in ex:
        stats['masks'].append(digest(ex['mask']))
    return {'violations': viols, 'stats': stats}


def _short(op):
    return '%s tgt=%s to=%s' % (op['op'], op.get('tgt', op.get('e')), op.get('to'))


def _check_solved(case, it, w, viol, stats, probe, props):
    ex = case['expect']
    S = case['S'] if 'S' in case else 1
    labels = case['labels']
    last_healthy = None
    for sop in case['solves']:
        rec = it.step(sop)
        stats['events'] += 1
        if sop['op'] != 'solve':
            if not rec['ok']:
                viol('C13', 'legal-history-raises', 'event %s raised %s' % (sop['op'], rec['exc']), exc=':'.join(rec['exc']))
                return
            continue
        eng = sop['solver']
        if sop.get('fault'):
            stats['solves_faulted'][eng] = stats['solves_faulted'].get(eng, 0) + 1
            probe('failed_solve_then_healthy')
            # C12: results of a failed model cannot be read (this is the first solve of the model: whether the failure
            # propagated as an exception or was reported as a status, no query may return numbers afterwards)
            stats['checks_c12'] += 1
            for nm in ('m',) + (('y', 't') if case['kind'].startswith('combo') else ('y',) if case['kind'] == 'ruleprobe' else ('x1',)):
                try:
                    v = it.env[nm].get()
                    viol('C12', 'read-after-failed-solve', '%s.get() returned %r after a failed solve (status fault %s)'
                         % (nm, v, sop['fault']), tags=['failed_solve'])
                    return
                except Exception:
                    pass
            continue
        if not rec['ok']:
            viol('C13', 'solve-raises', 'solve(%s) raised %s: %s' % (eng, rec['exc'], rec.get('msg')), exc=':'.join(rec['exc']))
            return
        out = rec['out']
        stats['solves_healthy'][eng] = stats['solves_healthy'].get(eng, 0) + 1
        if out['sol'] != 'opt':
            stats['inconclusive']['not_optimal:%s:%s' % (eng, out.get('status'))] = 1
            return
        last_healthy = out
    if last_healthy is None:
        return
    out = last_healthy
    m = it.env['m']
    last_sv = [s_['solver'] for s_ in case['solves'] if s_['op'] == 'solve'][-1]
    tol = TOL if last_sv != 'eco' else 2e-5
    # tolerance for individual values: relative to the scale of the solution (an interior-point engine returns 1e-5
    # where the exact value is 0 while other entries are of order 10-100)
    vtol = (1e-5 if last_sv != 'eco' else 1e-4) * (1.0 + abs(out['obj']))

    if case['kind'] == 'ruleprobe':
        stats['checks_c13'] += 1
        probe('ruleprobe')
        if not close(out['obj'], ex['opt'], tol * 10):
            viol('C13', 'ruleprobe-optimum', 'optimum %.9g, but the per-event rule LPs give %.9g (events %s)' % (out['obj'], ex['opt'], ex['py']))
            return
        y, zobj = it.env['y'], it.env['z']
        try:
            rows0, idx = _series_to_rows(y(), S)
            coef, _ = _series_to_rows(y.get(zobj), S)
            v_ = 0.37
            rows1, _ = _series_to_rows(y(zobj.assign(v_)), S)
        except Exception as e:
            viol('C12', 'readback-raises', 'reading the rule back raised %r' % (e,), exc=type(e).__name__)
            return
        if len(ex['py']) > 1:
            probe('ruleprobe_eventwise')
        for ev, a_, k_ in ex['rules']:
            for s in ev:
                stats['checks_c12'] += 1
                g0, gk, g1 = float(rows0[s].reshape(-1)[0]), float(np.asarray(coef[s], float).reshape(-1)[0]), float(rows1[s].reshape(-1)[0])
                if abs(g0 - a_) > vtol * 10 or abs(gk - k_) > vtol * 10:
                    viol('C12', 'ruleprobe-rule', 'rule read back at label %r: y() = %.9g, y.get(z) = %.9g; the unique optimal rule of its '
                         'event %s is %.9g + %.9g z' % (labels[s], g0, gk, [labels[q] for q in ev], a_, k_), tags=['labelled_readback'])
                    return
                if abs(g1 - (a_ + k_ * v_)) > vtol * 10:
                    viol('C12', 'rule-eval', 'y(z.assign(%.2f)) = %.9g at label %r, the rule of its event gives %.9g'
                         % (v_, g1, labels[s], a_ + k_ * v_))
                    return
        return

    if case['kind'] == 'mix':
        ref_opt = mix_reference(case)
        names = case.get('names', ['x1', 'x2'])
        parts = _mix_parts(case)
        ws = ex['w']
        stats['checks_c13'] += 1
        if not close(out['obj'], ref_opt, tol):
            viol('C13', 'mix-optimum', 'optimum %.9g but the reference LP over partitions %s gives %.9g'
                 % (out['obj'], ' / '.join(str(e) for e in parts), ref_opt))
            return
        # non-anticipativity invariant and labelled read-back of each decision
        for nm, part in zip(names, parts):
            rows, idx = _call_rows(it.env[nm], S)
            stats['checks_c13'] += 1
            if idx is not None:
                probe('series_readback')
                if [str(a) for a in idx] != [str(a) for a in labels]:
                    viol('C12', 'series-index', '%s.get() index %s, scenario labels %s' % (nm, list(idx), labels))
                    return
            for e in part:
                vals = [float(rows[s][0]) for s in e]
                if max(vals) - min(vals) > 1e-6:
                    viol('C13', 'nonanticipativity', '%s() differs inside declared event %s: %s'
                         % (nm, [labels[s] for s in e], vals))
                    return
        # the combined expression is adaptive to the common refinement: (x1+x2[+x3])() gives per-scenario values
        stats['checks_c13'] += 1
        if len(names) > 2:
            probe('mix_three_operands')
        try:
            cs = [_call_rows(it.env[nm], S)[0] for nm in names]
            tot_e = it.env[names[0]] + it.env[names[1]]
            for nm in names[2:]:
                tot_e = tot_e + it.env[nm]
            both = tot_e()
            cb, _ = _series_to_rows(both, S)
            for s in range(S):
                want = sum(float(c[s][0]) for c in cs)
                if abs(float(cb[s][0]) - want) > 1e-7:
                    viol('C13', 'mix-expression-refinement', '(%s)() = %.9g at label %r but the sum of the single calls is %.9g there '
                         '(partitions %s)' % (' + '.join(names), cb[s][0], labels[s], want, ' / '.join(str(e) for e in parts)))
                    return
        except Exception as e:
            viol('C12', 'readback-raises', '(%s)() raised %r' % (' + '.join(names), e), exc=type(e).__name__)
            return
        # the per-scenario values must satisfy sum x_i >= u_s and reproduce the objective
        stats['checks_c12'] += 1
        try:
            rs_ = [_series_to_rows(it.env[nm].get(), S)[0] for nm in names]
            tot = sum(case['p'][s] * sum(w_ * r_[s][0] for w_, r_ in zip(ws, rs_)) for s in range(S))
            if not close(tot, out['obj'], 1e-5):
                viol('C12', 'mix-readback-objective', 'sum_s p_s sum_i w_i x_i(s) from labelled get() = %.9g, objective %.9g'
                     % (tot, out['obj']), tags=['labelled_readback'])
                return
            for s in range(S):
                if sum(r_[s][0] for r_ in rs_) < case['u'][s] - 1e-5:
                    viol('C12', 'mix-readback-feasibility', 'label %r: %s = %.9g < u_s = %.9g from labelled get()'
                         % (labels[s], ' + '.join(names), sum(r_[s][0] for r_ in rs_), case['u'][s]), tags=['labelled_readback'])
                    return
        except Exception as e:
            viol('C12', 'readback-raises', 'get() raised %r after an optimal solve' % (e,), exc=type(e).__name__)
        return

    # ---- combo models ---------------------------------------------------------------------------
    d, n = case['d'], case['n']
    stats['checks_c13'] += 1
    if len(ex['py']) > 1:
        probe('y_event_partition')
    if any(0 < sum(r_) for r_ in ex['mask']):
        probe('affine_mask')
    # model.get() in the user's sense equals the objective expression at the values read back through t()
    stats['checks_c12'] += 1
    try:
        uo = _objective_from_readback(case, it, S, d)
        if not close(out['obj'], uo, max(tol, 1e-5)):
            viol('C12', 'get-vs-readback', 'model.get() = %.9g but the objective expression evaluated at the values of t() is %.9g '
                 '(%s model)' % (out['obj'], uo, 'maximisation' if case.get('sense_max') else 'minimisation'))
            return
    except Exception as e:
        viol('C12', 'readback-raises', 't() raised %r after an optimal solve' % (e,), exc=type(e).__name__)
        return
    if not close(out['obj'], ex['opt'], tol):
        viol('C13', 'combo-optimum', 'optimum %.9g, closed form for declared partitions y:%s t:%s mask %s is %.9g'
             % (out['obj'], ex['py'], ex['pt'], ex['mask'], ex['opt']))
        return
    if case.get('extra'):
        stats['checks_c13'] += 1
        probe('two_adaptive_decisions')
        try:
            grow, _ = _call_rows(it.env['g'], S)
            for i in range(case['extra']['dq']):
                if abs(float(grow[0][i]) - case['extra']['gval'][i]) > vtol:
                    viol('C13', 'second-block-epigraph', 'g[%d]() = %.9g, closed form for the second adaptive decision (partition %s, '
                         'mask %s) is %.9g' % (i, grow[0][i], case['extra']['pq'], case['extra']['maskq'], case['extra']['gval'][i]))
                    return
        except Exception as e:
            viol('C12', 'readback-raises', 'g() raised %r after an optimal solve' % (e,), exc=type(e).__name__)
            return
    # read-backs
    try:
        yv = it.env['y'].get()
        tv = it.env['t'].get()
    except Exception as e:
        viol('C12', 'readback-raises', 'get() raised %r after an optimal solve' % (e,), exc=type(e).__name__)
        return
    stats['checks_c12'] += 1
    for nm, val, expv, part in (('y', yv, ex['y0'], ex['py']), ('t', tv, ex['t'], ex['pt'])):
        rows, idx = _series_to_rows(val, S)
        if idx is not None:
            probe('series_readback')
            if [str(a) for a in idx] != [str(a) for a in labels]:
                viol('C12', 'series-index', '%s.get() index %s, scenario labels %s' % (nm, list(idx), labels))
                return
        elif len(part) > 1:
            viol('C12', 'series-missing', '%s has %d events but get() returned a single array' % (nm, len(part)))
            return
        try:
            crow, _ = _call_rows(it.env[nm], S)
        except Exception as e:
            viol('C12', 'readback-raises', '%s() raised %r after an optimal solve' % (nm, e), exc=type(e).__name__)
            return
        for e in part:
            for i in range(d):
                vals = [float(crow[s][i]) for s in e]
                if max(vals) - min(vals) > 1e-6:
                    viol('C13', 'nonanticipativity', '%s[%d]() differs inside declared event %s: %s'
                         % (nm, i, [labels[s] for s in e], vals))
                    return
        for s in range(S):
            if rows[s].size != d:
                viol('C12', 'shape', '%s.get() entry for label %r has size %d, declared %d' % (nm, labels[s], rows[s].size, d))
                return
            for i in range(d):
                g = float(rows[s][i])
                if nm == 'y':
                    # the intercept is only pinned down to an interval: C R_e <= y0 <= t - C r_s
                    lo_ = expv[s][i]
                    hi_ = ex['t'][s][i] - ex['C'][i] * case['r'][s]
                    okv = lo_ - vtol <= g <= hi_ + vtol
                    want = '[%.9g, %.9g]' % (lo_, hi_)
                else:
                    okv = abs(g - expv[s][i]) <= vtol
                    want = '%.9g' % expv[s][i]
                if not okv:
                    viol('C12', 'labelled-value', '%s.get()[label %r][%d] = %.9g, closed form for that scenario %s '
                         '(partition %s, labels %s)' % (nm, labels[s], i, g, want, part, labels),
                         tags=['labelled_readback'])
                    break
            else:
                continue
            break
    # coefficients on random components
    if any(sum(r_) for r_ in ex['mask']):
        stats['checks_c12'] += 1
        stats['checks_c13'] += 1
        import pandas as pd
        mats = [np.full((d, n), np.nan) for _ in range(S)]
        for an, lo, hi in case.get('arrays', [['z', 0, n]]):
            try:
                cv = it.env['y'].get(it.env[an])
            except Exception as e:
                viol('C12', 'readback-raises', 'y.get(%s) raised %r' % (an, e), exc=type(e).__name__)
                return
            part_ = [np.asarray(v, float).reshape(d, hi - lo) for v in cv.values] if isinstance(cv, pd.Series) \
                else [np.asarray(cv, float).reshape(d, hi - lo)] * S
            for s in range(S):
                mats[s][:, lo:hi] = part_[s]
        try:
            ycall, _ = _call_rows(it.env['y'], S)
            tcall, _ = _call_rows(it.env['t'], S)
        except Exception as e:
            viol('C12', 'readback-raises', 'y()/t() raised %r after an optimal solve' % (e,), exc=type(e).__name__)
            return
        for s in range(S):
            for i in range(d):
                dev = 0.0
                for j in range(n):
                    g = mats[s][i, j]
                    e_ = ex['Y'][i][j]
                    if e_ is None:
                        if not np.isnan(g) and abs(g) > 1e-9:
                            viol('C13', 'undeclared-dependence', 'y[%d] has coefficient %.6g on random component %d (label %r) '
                                 'although no dependence was declared (mask %s)' % (i, g, j, labels[s], ex['mask']))
                            return
                        if not np.isnan(g):
                            viol('C12', 'nan-mask', 'y.get(.)[label %r][%d,%d] = %r where no dependence was declared (NaN expected, '
                                 'mask %s)' % (labels[s], i, j, g, ex['mask']))
                            return
                    else:
                        if np.isnan(g):
                            viol('C12', 'coefficient', 'y.get(z)[label %r][%d,%d] is NaN although dependence on that '
                                 'component was declared' % (labels[s], i, j))
                            return
                        dev += abs(g - e_)
                # the read-back rule (intercept from y(), coefficients from y.get(z)) must be robustly feasible in
                # scenario s and consistent with t: (dev + C) R_e <= y0 and y0 + (dev + C) r_s <= t
                y0s, ts = float(ycall[s][i]), float(tcall[s][i])
                need = (dev + ex['C'][i])
                tol_ = vtol + 1e-5 * (abs(ts) + abs(y0s))
                if y0s < need * case['r'][s] - tol_ or y0s + need * case['r'][s] > ts + tol_:
                    viol('C12', 'coefficient', 'rule read back for y[%d] at label %r (intercept %.9g, coefficients %s) is not '
                         'consistent with the solved model: needs intercept >= %.9g and t = %.9g >= %.9g'
                         % (i, labels[s], y0s, list(mats[s][i]), need * case['r'][s], ts, y0s + need * case['r'][s]),
                         tags=['labelled_readback'])
                    return
    # x() vs x.get()
    stats['checks_c12'] += 1
    try:
        y_call = it.env['y']()
        rows_c, _ = _series_to_rows(y_call, S)
        rows_g, _ = _series_to_rows(yv, S)
        for s in range(S):
            if np.max(np.abs(rows_c[s] - rows_g[s])) > 1e-7:
                viol('C12', 'call-vs-get', 'y() = %s but y.get() = %s at label %r' % (rows_c[s], rows_g[s], labels[s]))
                return
    except Exception as e:
        viol('C12', 'readback-raises', 'y() raised %r after an optimal solve' % (e,), exc=type(e).__name__)
        return
    # slices: x[i:j].get() returns exactly the slice's entries, in the slice's shape, and agrees with x[i:j]()
    stats['checks_c12'] += 1
    a_ = case['seed'] % d
    b_ = a_ + 1 + (case['seed'] // 7) % (d - a_)
    for sl, nm in (((a_, b_), 't[%d:%d]' % (a_, b_)), (a_, 't[%d]' % a_)):
        obj_ = it.env['t'][slice(*sl)] if isinstance(sl, tuple) else it.env['t'][sl]
        try:
            gv = obj_.get()
        except Exception as e:
            viol('C12', 'slice-readback-raises', '%s.get() raised %r after an optimal solve' % (nm, e), exc=type(e).__name__,
                 tags=['slice_get_' + case['kind']])
            break
        rows_s, _ = _series_to_rows(gv, S)
        rows_f, _ = _series_to_rows(tv, S)
        rows_k, _ = _series_to_rows(obj_(), S)
        for s in range(S):
            want = rows_f[s][sl[0]:sl[1]] if isinstance(sl, tuple) else rows_f[s][sl:sl + 1]
            if rows_s[s].shape != want.shape or np.max(np.abs(rows_s[s] - want)) > 1e-9:
                viol('C12', 'slice-readback', '%s.get() = %s at label %r, the entries of t.get() it denotes are %s'
                     % (nm, rows_s[s], labels[s], want), tags=['slice_get'])
                break
            if rows_k[s].shape != want.shape or np.max(np.abs(rows_k[s] - want)) > 1e-7:
                viol('C12', 'call-vs-get', '%s() = %s but the entries of t.get() it denotes are %s' % (nm, rows_k[s], want))
                break
    # expressions derived from the (possibly event-wise) decision t keep its event structure: each is evaluated through
    # RSOME and compared, scenario by scenario, with NumPy applied to the values of t()
    try:
        rows_t, _ = _call_rows(it.env['t'], S)
        tvs = [np.asarray(r_, float).reshape(-1) for r_ in rows_t]
        rg = random.Random(case['seed'] ^ 0x5a17)
        cvec = np.array([float(rg.randint(1, 4)) * rg.choice([-1, 1]) for _ in range(d)])
        amat = np.array([[float(rg.randint(1, 3)) * rg.choice([-1, 1]) for _ in range(d)] for _ in range(2)])
        t_ = it.env['t']
        derived = [('c @ t', lambda: cvec @ t_, lambda v: cvec @ v), ('t @ c', lambda: t_ @ cvec, lambda v: v @ cvec),
                   ('A @ t', lambda: amat @ t_, lambda v: amat @ v), ('-t', lambda: -t_, lambda v: -v),
                   ('2.0 * t', lambda: 2.0 * t_, lambda v: 2.0 * v), ('t * c', lambda: t_ * cvec, lambda v: v * cvec),
                   ('c * t', lambda: cvec * t_, lambda v: cvec * v), ('t + 1', lambda: t_ + 1.0, lambda v: v + 1.0),
                   ('1 - t', lambda: 1.0 - t_, lambda v: 1.0 - v), ('t.sum()', lambda: t_.sum(), lambda v: v.sum()),
                   ('(A @ t).sum()', lambda: (amat @ t_).sum(), lambda v: (amat @ v).sum()),
                   ('t - t[0]', lambda: t_ - t_[0], lambda v: v - v[0])]
        rg.shuffle(derived)
        for nm, mk_, fn in derived[:5]:
            stats['checks_c12'] += 1
            try:
                rows_e, _ = _series_to_rows(mk_()(), S)
            except Exception as e:
                viol('C12', 'derived-expression-raises', 'evaluating %s after an optimal solve raised %r' % (nm, e), exc=type(e).__name__)
                break
            wants = [np.asarray(fn(v), float).reshape(-1) for v in tvs]
            bad = [s_ for s_ in range(S) if np.asarray(rows_e[s_], float).reshape(-1).shape != wants[s_].shape or
                   np.max(np.abs(np.asarray(rows_e[s_], float).reshape(-1) - wants[s_])) > 1e-6 * (1 + np.max(np.abs(wants[s_])))]
            if bad:
                s_ = bad[0]
                flat = all(np.allclose(np.asarray(rows_e[q], float).reshape(-1), np.asarray(rows_e[0], float).reshape(-1)) for q in range(S))
                if flat and len(ex['pt']) > 1:
                    viol('C13', 'derived-expression-refinement', '(%s)() returns one value %s for every scenario although t is event-wise '
                         '(partition %s); at label %r NumPy on t() gives %s' % (nm, rows_e[0], ex['pt'], labels[s_], wants[s_]))
                viol('C12', 'derived-expression-eval', '(%s)() = %s at label %r, NumPy on the values of t() gives %s'
                     % (nm, rows_e[s_], labels[s_], wants[s_]))
                break
    except Exception as e:
        viol('C12', 'readback-raises', 't() raised %r after an optimal solve' % (e,), exc=type(e).__name__)
    # convex atoms on decision expressions (multiplier and affine offset), evaluated at the solution
    if case['kind'] == 'combo-ro' or case.get('cvx_dro'):
        from sim.astx import Builder, evalnum
        b = Builder(rs_mod().rso, it.env)
        tvals = np.asarray(it.env['t'].get(), float).reshape(-1)
        for atom in case.get('cvx_atoms', []):
            stats['checks_c12'] += 1
            try:
                got = b.ev(atom)()
            except Exception as e:
                viol('C12', 'convex-eval-raises', 'evaluating %s raised %r' % (atom, e), exc=type(e).__name__, tags=['cvx_' + str(atom[1][1] if atom[0] == '+' else atom[1])])
                continue
            want = evalnum(atom, {'t': tvals})
            g = np.asarray(got, float).reshape(-1)
            w_ = np.asarray(want, float).reshape(-1)
            if g.shape != w_.shape or np.max(np.abs(g - w_)) > 1e-6 * (1 + np.max(np.abs(w_))):
                viol('C12', 'convex-eval', '%s evaluates to %s, NumPy evaluation at t=%s gives %s' % (atom, g, tvals, w_),
                     tags=['cvx_eval'])
                break
    # expression evaluation: decision-only affine expression, then bi-affine at a realisation
    arrays_ = case.get('arrays', [['z', 0, n]])
    n1_ = arrays_[0][2]
    zv = np.zeros(n)
    zv[:n1_] = np.array(case['zval'][:n1_], float)          # only z is assigned; every other random array counts as zero
    zobj = it.env['z']
    try:
        for i in range(d):
            got = (2.0 * _yent(it.env['y'], i, case) + 1.0)()
            rows_e, _ = _series_to_rows(got, S)
            for s in range(S):
                want = 2.0 * float(rows_c[s][i]) + 1.0
                if not close(float(rows_e[s].reshape(-1)[0]), want, 1e-5):
                    viol('C12', 'expr-eval-affine', '(2*y[%d] + 1)() = %.9g at label %r, NumPy evaluation %.9g'
                         % (i, rows_e[s].reshape(-1)[0], labels[s], want))
                    return
    except Exception as e:
        viol('C12', 'readback-raises', 'affine expression evaluation raised %r' % (e,), exc=type(e).__name__)
        return
    # y(z.assign(v)) = intercept + coefficients . v, with the intercept from y() and the coefficients from y.get(.), for a
    # common realisation and for scenario-wise realisations (z.assign(values, sw=True)); other random arrays count as zero
    if any(sum(r_) for r_ in ex['mask']):
        stats['checks_c12'] += 1
        try:
            import pandas as pd
            an0, lo0, hi0 = arrays_[0]
            got = it.env['y'](zobj.assign(zv[:n1_]))
            rows_v, _ = _series_to_rows(got, S)
            for s in range(S):
                coef = np.nan_to_num(mats[s][:, lo0:hi0])
                want = rows_c[s] + coef @ zv[:n1_]
                if np.max(np.abs(rows_v[s] - want)) > vtol * 10:
                    viol('C12', 'rule-eval', 'y(z.assign(%s)) = %s at label %r, but y() + y.get(z) @ v = %s'
                         % (list(zv[:n1_]), rows_v[s], labels[s], want))
                    return
            if case['kind'] == 'combo-dro':
                vals = [zv[:n1_] * (s + 1.0) for s in range(S)]
                got = it.env['y'](zobj.assign(np.array(vals), sw=True))        # one row per scenario
                rows_v, _ = _series_to_rows(got, S)
                for s in range(S):
                    coef = np.nan_to_num(mats[s][:, lo0:hi0])
                    want = rows_c[s] + coef @ vals[s]
                    if np.max(np.abs(rows_v[s] - want)) > vtol * 10:
                        viol('C12', 'rule-eval-scenariowise' + ('-single-event' if len(ex['py']) == 1 else ''),
                             'y(z.assign(values, sw=True)) = %s at label %r (realisation %s), '
                             'but y() + y.get(z) @ v = %s' % (rows_v[s], labels[s], [float(v_) for v_ in vals[s]], want),
                             tags=['scenariowise_realisation_single_event'] if len(ex['py']) == 1 else [])
                        if len(ex['py']) == 1:
                            break                  # (was known finding K8, repaired as F23): keep checking the rest
                        return
        except Exception as e:
            viol('C12', 'rule-eval-raises', 'y(z.assign(...)) raised %r' % (e,), exc=type(e).__name__, tags=['rule_eval_' + case['kind']])
    try:
        for i in range(d):
            expr = _yent(it.env['y'], i, case)
            for an, lo, hi in arrays_:
                expr = expr - np.array(case['c'][i][lo:hi]) @ it.env[an]
            got = expr(zobj.assign(zv[:n1_]))
            rows_e, _ = _series_to_rows(got, S)
            # the decision's own value at the realisation comes from y(z.assign(v)) (its coefficients are not unique in a
            # scenario that does not attain the worst case of its event, so the closed-form ones cannot be used in dro)
            rows_y = _series_to_rows(it.env['y'](zobj.assign(zv[:n1_])), S)[0] if case['kind'] == 'combo-dro' else None
            zfull = np.concatenate([zv[:n1_], np.zeros(len(zv) - n1_)])
            for s in range(S):
                Yrow = np.array([0.0 if v is None else v for v in ex['Y'][i]])
                want = float(rows_c[s][i]) + Yrow @ zv - np.array(case['c'][i]) @ zv
                if case['kind'] == 'combo-dro':
                    want = float(np.asarray(rows_y[s], float).reshape(-1)[i]) - np.array(case['c'][i]) @ zfull
                if not close(float(rows_e[s].reshape(-1)[0]), want, 1e-5):
                    viol('C12', 'expr-eval-biaffine', '(y[%d] - c.z)(z.assign(%s)) = %.9g at label %r, NumPy evaluation %.9g'
                         % (i, list(zv), rows_e[s].reshape(-1)[0], labels[s], want))
                    return
            if case['kind'] == 'combo-dro' and len(arrays_) == 1:
                # the same bi-affine expression at scenario-wise realisations
                stats['checks_c12'] += 1
                vals = [zv * (0.5 * s + 1.0) for s in range(S)]
                rows_e, _ = _series_to_rows(expr(zobj.assign(np.array(vals), sw=True)), S)
                rows_y, _ = _series_to_rows(it.env['y'](zobj.assign(np.array(vals), sw=True)), S)
                for s in range(S):
                    want = float(np.asarray(rows_y[s], float).reshape(-1)[i]) - np.array(case['c'][i]) @ vals[s]
                    if not close(float(rows_e[s].reshape(-1)[0]), want, 1e-5):
                        viol('C12', 'expr-eval-biaffine-scenariowise', '(y[%d] - c.z)(z.assign(values, sw=True)) = %.9g at label %r '
                             '(realisation %s), NumPy evaluation %.9g' % (i, rows_e[s].reshape(-1)[0], labels[s], list(vals[s]), want))
                        return
    except Exception as e:
        viol('C12', 'biaffine-eval-raises', '(y[i] - c@z)(z.assign(v)) raised %r' % (e,), exc=type(e).__name__,
             tags=['biaffine_eval_' + case['kind']])
    if case.get('post'):
        _post_phase(case, it, viol, stats, probe, S, d)


def _objective_from_readback(case, it, S, d):
    pr_ = case['p'] if case['kind'] == 'combo-dro' else [1.0]
    uo = 0.0
    for nm, w_ in case.get('obj_terms') or [['t', None]]:
        rows, _ = _call_rows(it.env[nm], S)
        if w_ is None:
            for o_ in case['ops']:
                if o_['op'] == 'obj':
                    e_ = o_['e']
                    while e_[0] in ('neg', 'E'):
                        e_ = e_[1]
                    w_ = e_[1][1]
        uo += sum(pr_[s] * sum(w_[i] * float(rows[s][i]) for i in range(len(w_))) for s in range(S))
    return -uo if case.get('sense_max') else uo


def _post_phase(case, it, viol, stats, probe, S, d):
    """the model grows after a successful solve, then a solve fails.  If the failure is reported as a status, no query
    may return numbers; if the engine raised, whatever the queries return must still be ONE solution (objective and
    variables of the same solve); the next healthy solve must bring all queries in line again."""
    post = case['post']
    m = it.env['m']
    old_obj = float(m.get())
    tnow = np.asarray(_call_rows(it.env['t'], S)[0][0], float)
    bump = float(np.max(tnow)) + post['bump']
    for op in ({'op': 'cons', 'id': 'post_c', 'e': ['>=', ['i', ['v', 't'], 0], ['c', bump]]},
               {'op': 'st', 'm': 'm', 'ids': ['post_c']}):
        rec = it.step(op)
        if not rec['ok']:
            return
    rec = it.step({'op': 'solve', 'm': 'm', 'solver': post['solver'], 'fault': post['fault']})
    stats['events'] += 3
    probe('solve_fails_after_model_grew')
    stats['checks_c12'] += 1
    got = {}
    for nm, f in (('model.get()', lambda: float(m.get())), ('t()', lambda: _objective_from_readback(case, it, S, d)),
                  ('t.get()', lambda: it.env['t'].get())):
        try:
            got[nm] = f()
        except Exception:
            pass
    if rec['ok'] and post['fault']['kind'] == 'status':
        if got:
            viol('C12', 'read-after-failed-solve', 'after a failed solve (status fault %s) these queries still return numbers: %s'
                 % (post['fault'], sorted(got)), tags=['failed_solve'])
            return
    elif 'model.get()' in got and 't()' in got:
        if not close(got['model.get()'], got['t()'], 1e-5):
            viol('C12', 'inconsistent-after-failed-solve', 'after a solve whose engine raised (%s): model.get() = %.9g but the objective '
                 'at the values of t() is %.9g (objective before the model grew: %.9g)'
                 % (post['fault'], got['model.get()'], got['t()'], old_obj), tags=['failed_solve'])
            return
    # (queries that raise after an engine exception are fine: the property speaks about successful solves; what must not
    #  happen is numbers of two different solves being served side by side)
    rec = it.step({'op': 'solve', 'm': 'm', 'solver': post['final_solver']})
    if rec['ok'] and rec['out']['sol'] == 'opt':
        stats['checks_c12'] += 1
        uo = _objective_from_readback(case, it, S, d)
        if not close(rec['out']['obj'], uo, 1e-5):
            viol('C12', 'get-vs-readback', 'after recovery: model.get() = %.9g but the objective at the values of t() is %.9g'
                 % (rec['out']['obj'], uo))


def sample_of(case):
    return {'kind': case['kind'], 'which': case.get('which'), 'labels': case.get('labels'),
            'expect': {k: v for k, v in case.get('expect', {}).items() if k in ('py', 'pt', 'mask', 'p1', 'p2', 'opt')},
            'adapt_ops': [op for op in case['ops'] if op['op'] == 'adapt']}


def shrink_candidates(case, viol):
    ops = case['ops']
    if case['kind'] == 'illegal':
        # only drop steps that cannot turn the illegal declaration into a legal one
        last = ops[-1]

        def scen_set(o):
            to = o.get('to')
            if isinstance(to, dict):
                v = to.get('scen', to.get('fset', [None, None])[1])
                if isinstance(v, dict):
                    if 'range' in v:
                        v = list(range(v['range'][0], v['range'][1]))
                    elif 'np' in v:
                        v = v['np']
                    elif 'nparr' in v:
                        v = list(v['nparr'])
                    else:
                        v = v.get('loc', v.get('iloc'))
                return set(v) if isinstance(v, list) else {v}
            return None
        last_sc = scen_set(last) if last['op'] == 'adapt' else None
        for i, op in enumerate(ops[:-1]):
            if op.get('expect'):
                continue
            drop = op['op'] in ('supp', 'prob', 'expt', 'gc')
            if op['op'] == 'adapt' and last_sc is not None and op.get('tgt') == last.get('tgt'):
                sc = scen_set(op)
                drop = sc is not None and not (sc & last_sc)
            if drop:
                c = copy.deepcopy(case)
                del c['ops'][i]
                yield c
        return
    if len(case.get('solves', [])) > 1:
        for i in range(len(case['solves']) - 1):
            c = copy.deepcopy(case)
            del c['solves'][i]
            yield c
    for i, op in enumerate(ops):
        if op['op'] == 'gc':
            c = copy.deepcopy(case)
            del c['ops'][i]
            yield c
