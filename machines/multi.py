"""M-MULTI: several models built by interleaved tasks in one process, with misuse injected (C17).

Two run modes, drawn per case:
  interference   2-3 declared models (ro / dro / deterministic ro / lp front end, any mix) are built by interleaved
                 tasks under one seeded scheduler; formulate/solve/query events (with engine faults) hit a random
                 model between steps.  Verdict: each model's result equals the result of the same declared model built
                 alone (computed before and after the interleaved run).
  misuse         same interleaving, plus misuse operations injected at random points on objects that exist at that
                 instant: cross-model st / operands / sets / ambiguity sets / adaptation, second objective (every
                 pairing), non-scalar objective, read-back of unsolved and failed models, ambiguity() after
                 constraints.  Verdict: every misuse raises at the call that receives the illegal object.
                 (Whether a *rejected* call left its own model intact is recorded as an observation only.)
"""
import copy
import random

import numpy as np

from sim import interp, gen
from sim import world as W
from sim.runner import subseed, digest

NAME = 'M-MULTI'
PROPS = ['C17']
LEVEL = 'exploration'
RULE = ('case = 2-3 declared models (sources: M-HIST ro-sep, M-PART combo ro/dro, M-PEER programs, lp front end) merged by a '
        'seeded interleaving, with environment events and either no misuse (interference mode) or 1-8 injected misuse '
        'operations (misuse mode); distinct = distinct (model kinds, interleaving pattern, misuse kinds) signature; non-trivial = '
        'the two models alternated at least 3 times and (>=1 misuse was attempted or >=2 models were solved and compared with '
        'their isolated builds)')
ASSUMPTIONS = [
    'a misuse must raise at the call that receives the foreign/illegal object (any exception class)',
    'state of a model after a rejected call is not specified by the property (observation only)',
    'engines trusted on healthy calls',
]
COMPONENTS = {
    'real': ['rsome/* from the tree under test', 'real engines behind proxies'],
    'stub': ['clock', 'stdout sink', 'engine fault plan'],
}


# --------------------------------------------------------------------------------------------------
# renaming of op lists
# --------------------------------------------------------------------------------------------------

def _ren_ast(e, pre):
    if isinstance(e, list):
        if e and e[0] == 'v' and len(e) == 2 and isinstance(e[1], str):
            return ['v', pre + e[1]]
        if e and e[0] == 'c':
            return e
        return [_ren_ast(x, pre) for x in e]
    return e


def rename_ops(ops, pre):
    out = []
    for op in ops:
        o = {}
        for k, v in op.items():
            if k in ('id', 'm', 'amb') and isinstance(v, str):
                o[k] = pre + v
            elif k == 'ids':
                o[k] = [pre + x for x in v]
            elif k in ('e', 'tgt', 'set', 'obj', 'rvar'):
                o[k] = _ren_ast(v, pre)
            elif k == 'to':
                if isinstance(v, dict) and 'fset' in v:
                    o[k] = {'fset': [pre + v['fset'][0], v['fset'][1]]}
                elif isinstance(v, list):
                    o[k] = _ren_ast(v, pre)
                elif isinstance(v, str):
                    o[k] = pre + v
                else:
                    o[k] = v
            else:
                o[k] = v
        o['task'] = pre
        out.append(o)
    return out


# --------------------------------------------------------------------------------------------------
# model sources
# --------------------------------------------------------------------------------------------------

def gen_lp_model(rng, kind='lp'):
    n = rng.randint(2, 4)
    x0 = [gen.r2(rng, -1, 1) for _ in range(n)]
    ops = [{'op': 'model', 'id': 'm', 'kind': kind}, {'op': 'dvar', 'id': 'x', 'm': 'm', 'shape': [n]}]
    cons = [['>=', ['v', 'x'], ['c', [v - 2 for v in x0]]], ['<=', ['v', 'x'], ['c', [v + 2 for v in x0]]]]
    for _ in range(rng.randint(1, 3)):
        a = [gen.nz2(rng, -2, 2) for _ in range(n)]
        cons.append(['<=', ['@', ['c', a], ['v', 'x']], ['c', round(float(np.dot(a, x0)) + gen.r2(rng, 0, 1), 4)]])
    for i, c in enumerate(cons):
        ops.append({'op': 'cons', 'id': 'k%d' % i, 'e': c})
    ops.append({'op': 'st', 'm': 'm', 'ids': ['k%d' % i for i in range(len(cons))], 'aslist': True})
    ops.append({'op': 'obj', 'm': 'm', 'how': rng.choice(['min', 'max']), 'e': ['@', ['c', [gen.nz2(rng) for _ in range(n)]], ['v', 'x']]})
    return {'kind': kind, 'ops': ops, 'pool': ['grb', 'def', 'ort', 'eco'], 'tol': 1e-6,
            'dvars': [('x', n)], 'rvars': [], 'robust': [], 'det_cons': ['k%d' % i for i in range(len(cons))], 'ambs': []}


def gen_model(rng, which):
    if which == 'ro-sep':
        from machines import hist
        d = hist.gen_ro_sep(rng, {})
        ops = hist.canon_ops(d)
        for o in ops:
            o.pop('blocks', None)
            o.pop('sid', None)
        K = len([s for s in d['steps'] if s.get('role') == 'cons'])
        nx = len(d['expect']['x'])
        dv = [(n, 1) for n in d['xnames']] if d['xnames'] != ['x'] else [('x', nx)]
        return {'kind': 'ro', 'ops': ops, 'pool': d['pool'], 'tol': hist.TOL[d['cone']],
                'dvars': dv, 'rvars': list(d['zs'].items()),
                'robust': ['c%d' % k for k in range(K)], 'det_cons': [], 'ambs': []}
    if which in ('combo-dro', 'combo-ro'):
        from machines import part
        c = part.gen_combo(rng, {}, which.split('-')[1])
        return {'kind': which.split('-')[1], 'ops': c['ops'], 'pool': c['pool'], 'tol': 2e-5,
                'dvars': [('y', c['d']), ('t', c['d'])], 'rvars': [(an, hi - lo) for an, lo, hi in c['arrays']],
                'robust': ['cy0', 'ct0'], 'det_cons': [], 'ambs': ['F'] if which == 'combo-dro' else [],
                'ldr': c['d'] if which == 'combo-ro' else 0,
                'labels': c['labels'], 'S': c['S'], 'p': c['p']}
    if which == 'prog':
        from machines import peer
        while True:
            p = peer.gen_program(rng, {'classes': ['LP', 'MILP', 'SOCP']})
            if p['variant'] == 'feasible':
                break
        ncons = len([o for o in p['ops'] if o['op'] == 'cons'])
        sizes = {o['id']: (o.get('shape') or [1])[0] for o in p['ops'] if o['op'] == 'dvar'}
        return {'kind': 'ro', 'ops': p['ops'], 'pool': peer.capable(p['cls']), 'tol': peer.TOLS[p['cls']] * 10,
                'dvars': [(v, sizes[v]) for v in p['vars']], 'rvars': [], 'robust': [],
                'det_cons': ['k%d' % i for i in range(ncons)], 'ambs': []}
    return gen_lp_model(rng, which if which in ('lp', 'socp', 'gcp') else 'lp')


SOURCES = ['ro-sep', 'ro-sep', 'combo-dro', 'combo-dro', 'combo-ro', 'prog', 'lp', 'lp', 'socp', 'gcp']

MISUSE = ['cross_st', 'cross_add', 'cross_mul_rvar', 'cross_add_rvar', 'foreign_set_forall', 'foreign_amb_forall',
          'foreign_supp', 'foreign_expt', 'foreign_prob', 'foreign_amb_objective', 'second_objective', 'nonscalar_objective',
          'read_unsolved', 'read_failed', 'ambiguity_after_constraints', 'foreign_adapt', 'foreign_set_minmax',
          'foreign_amb_forall_explin', 'foreign_amb_forall_exppw', 'cross_concat', 'concat_dvar_rvar', 'foreign_adapt_ldr',
          'cross_maxof', 'cross_matmul_rvar', 'cross_st_cone', 'cross_st_piecewise', 'foreign_second_in_list', 'call_unsolved',
          'cross_kldiv', 'cross_convex', 'foreign_scen_adapt', 'second_objective_special', 'foreign_set_forall_warm', 'cross_pscale', 'cross_expcone']


def gen_case(seed, cfg):
    rng = random.Random(seed)
    mode = rng.choice(cfg.get('modes', ['interference', 'misuse', 'misuse']))
    nm = rng.choice([2, 2, 3])
    models = []
    # themed cases: the misuse kinds that need two ambiguity sets (or two robust models) get enough partners
    theme = rng.random()
    srcs = cfg.get('sources') or (['combo-dro'] if theme < 0.2 else ['combo-ro', 'ro-sep', 'combo-dro'] if theme < 0.3 else SOURCES)
    twins = rng.random() < 0.15        # the same declared model twice (equal sizes, equal structure), built interleaved
    src0 = None
    for i in range(nm):
        src = rng.choice(srcs)
        if twins and i > 0:
            mm = gen_model(random.Random(subseed(seed, 'model', 0)), src0)
        else:
            mm = gen_model(random.Random(subseed(seed, 'model', i)), src)
        if i == 0:
            src0 = src
        pre = 'ABC'[i] + '_'
        mm['pre'] = pre
        mm['rops'] = rename_ops(mm['ops'], pre)
        models.append(mm)
    # seeded interleaving of the tasks (each model's own order kept)
    ptr = [0] * nm
    merged = []
    burst = rng.choice([1, 1, 2, 4])
    while any(ptr[i] < len(models[i]['rops']) for i in range(nm)):
        live = [i for i in range(nm) if ptr[i] < len(models[i]['rops'])]
        i = rng.choice(live)
        for _ in range(rng.randint(1, burst)):
            if ptr[i] < len(models[i]['rops']):
                merged.append(models[i]['rops'][ptr[i]])
                ptr[i] += 1
    # walk the merged list, tracking what exists, and insert events / misuse
    ops = []
    state = [{'built': set(), 'obj': False, 'st': False, 'solved': False, 'failed': False, 'done': False} for _ in range(nm)]
    n_mis = 0
    max_mis = rng.randint(1, 8) if mode == 'misuse' else 0
    from machines.hist import FAULTS_BY_ENGINE
    for op in merged:
        ops.append(op)
        i = 'ABC'.index(op['task'][0])
        st_ = state[i]
        if 'id' in op:
            st_['built'].add(op['id'])
            if op['op'] == 'cons' and op['id'].endswith(('cy0', 'ct0')):
                st_['y_used'] = True
        if op['op'] == 'forall' and 'set' in op:
            st_.setdefault('foralls', []).append(op['id'])
        if op['op'] == 'obj':
            st_['obj'] = True
        if op['op'] == 'st':
            st_['st'] = True
        st_['done'] = (models[i]['rops'][-1] is op)
        # environment events on completed models
        if rng.random() < 0.15:
            done = [j for j in range(nm) if state[j]['done']]
            if done:
                j = rng.choice(done)
                sv = rng.choice(models[j]['pool'])
                ev = {'op': 'solve', 'm': models[j]['pre'] + 'm', 'solver': sv, 'env': 1, 'task': models[j]['pre']}
                if sv == 'grb' and rng.random() < 0.5:
                    ev['params'] = rng.choice([{'SolutionLimit': 1}, {'IterationLimit': 0}, {'TimeLimit': 0.0}, {'Method': 1},
                                               {'MIPGap': 0.5, 'NodeLimit': 0}])
                    ev['display'] = rng.random() < 0.3
                    ev['log'] = rng.random() < 0.3
                elif sv in ('def', 'lpg', 'ort', 'eco') and rng.random() < 0.3:
                    # engine parameters belong to the call they are passed to (whatever the interface does with them)
                    ev['params'] = rng.choice([{'maxiter': 1}, {'presolve': False}, {'time_limit': 0.0}, {'disp': False},
                                               {'max_iters': 1}, {'feastol': 1e-1}])
                elif rng.random() < 0.25:
                    ev['fault'] = dict(rng.choice([f for f in FAULTS_BY_ENGINE[sv] if f['kind'] in ('status', 'raise')]))
                    state[j]['failed'] = ev['fault']['kind'] == 'status'
                    if ev['fault']['kind'] == 'status':
                        state[j]['solved'] = False
                else:
                    state[j]['solved'] = True
                    state[j]['failed'] = False
                state[j]['ever_solved'] = True
                ops.append(ev)
            elif rng.random() < 0.5:
                ops.append({'op': 'gc', 'junk': rng.randint(0, 30), 'env': 1, 'task': '-'})
        # a step that opens a narrow window (a fresh decision rule not yet used, a fresh ambiguity set, a dro decision before
        # any constraint) is followed at once, every other time, by the misuse that needs that window
        window = {'ldr': ['foreign_adapt_ldr'], 'amb': ['foreign_supp', 'foreign_expt', 'foreign_prob', 'foreign_second_in_list'],
                  'dvar': ['foreign_adapt', 'foreign_scen_adapt'], 'forall': ['foreign_set_forall', 'foreign_amb_forall', 'foreign_set_forall_warm'],
                  'st': ['ambiguity_after_constraints', 'foreign_amb_objective']}.get(op['op'])
        if window and n_mis < max_mis and rng.random() < 0.5:
            mo = gen_misuse(rng, models, state, only=window, first=i)
            if mo is not None:
                n_mis += 1
                ops.extend(mo)
        while n_mis < max_mis and rng.random() < 0.2:
            mo = gen_misuse(rng, models, state)
            if mo is None:
                break
            n_mis += 1
            ops.extend(mo)
    # more misuse once every model is complete (objectives, constraints and ambiguity sets all exist)
    while n_mis < max_mis:
        mo = gen_misuse(rng, models, state)
        if mo is None:
            break
        n_mis += 1
        ops.extend(mo)
    return {'mode': mode, 'models': [{k: v for k, v in m.items() if k not in ('ops',)} for m in models], 'ops': ops, 'seed': seed}


def _sum_dv(mm, rng):
    nmv, size = rng.choice(mm['dvars'])
    return ['sum', ['v', mm['pre'] + nmv]] if size > 1 else ['sum', ['v', mm['pre'] + nmv]]


def gen_misuse(rng, models, state, only=None, first=None):
    """one misuse op (list of ops, last one carries expect='raise') on objects that exist right now, or None"""
    nm = len(models)
    order = list(MISUSE)
    rng.shuffle(order)
    if only:
        order = [k for k in order if k in only]
    elif rng.random() < 0.7:
        # kinds with narrow preconditions first, rarest first (a random cut keeps the head of the list from monopolising)
        rare = ['foreign_amb_forall', 'foreign_amb_forall_exppw', 'foreign_amb_forall_explin', 'foreign_prob', 'foreign_amb_objective',
                'foreign_set_forall_warm', 'foreign_set_forall', 'foreign_adapt_ldr', 'foreign_expt', 'foreign_second_in_list', 'foreign_set_minmax',
                'foreign_scen_adapt', 'second_objective_special', 'cross_pscale', 'cross_expcone', 'cross_kldiv', 'cross_convex', 'ambiguity_after_constraints', 'foreign_adapt', 'foreign_supp', 'cross_mul_rvar', 'cross_add_rvar',
                'concat_dvar_rvar', 'cross_matmul_rvar', 'cross_maxof', 'second_objective', 'cross_st_piecewise']
        cut = rng.randrange(len(rare))
        rare = rare[cut:] + rare[:cut] if rng.random() < 0.5 else rare
        order = rare + [k for k in order if k not in rare]
    first_ = first
    first = list(range(nm))
    rng.shuffle(first)          # the misused model is drawn first (uniformly), then the kind of misuse
    if first_ is not None:
        first = [first_]
    for a, kind in [(a_, k_) for a_ in first for k_ in order]:
        others = [b_ for b_ in range(nm) if b_ != a]
        rng.shuffle(others)
        if kind == 'cross_kldiv':
            others.sort(key=lambda b_: 0 if models[b_].get('ldr') else 1)       # a decision rule as reference, if there is one
        for b in others:
            A, B, sa, sb = models[a], models[b], state[a], state[b]
            pa, pb = A['pre'], B['pre']

            def have(mm, st_, names):
                return [n for n in names if mm['pre'] + n in st_['built']]
            a_dv = have(A, sa, [n for n, _ in A['dvars']])
            b_dv = have(B, sb, [n for n, _ in B['dvars']])
            b_rv = have(B, sb, [n for n, _ in B['rvars']])
            a_rob = have(A, sa, A['robust'])
            b_cons = have(B, sb, B['robust'] + B['det_cons'])
            a_amb = have(A, sa, A['ambs'])
            b_amb = have(B, sb, B['ambs'])
            mk = {'mis': kind, 'task': pa, 'expect': 'raise', 'touch': [pa, pb]}
            if kind == 'cross_st' and pa + 'm' in sa['built'] and b_cons and A['kind'] not in ('lp', 'socp', 'gcp'):
                return [dict(mk, op='st', m=pa + 'm', ids=[pb + rng.choice(b_cons)])]
            if kind == 'cross_st' and pa + 'm' in sa['built'] and b_cons and A['kind'] in ('lp', 'socp', 'gcp'):
                return [dict(mk, op='st', m=pa + 'm', ids=[pb + rng.choice(b_cons)], aslist=True)]
            if kind == 'cross_add' and a_dv and b_dv:
                return [dict(mk, op='expr', id='bad', e=['+', ['sum', ['v', pa + rng.choice(a_dv)]], ['sum', ['v', pb + rng.choice(b_dv)]]])]
            if kind == 'cross_concat' and a_dv and b_dv:
                fn = rng.choice(['concat', 'concat', 'vec', 'rstack', 'cstack'])
                ea, eb = ['v', pa + rng.choice(a_dv)], ['v', pb + rng.choice(b_dv)]
                if fn == 'vec':
                    ea, eb = ['sum', ea], ['sum', eb]
                elif fn in ('rstack', 'cstack'):
                    ea, eb = ['i', ea, [0, 1]] if dict(A['dvars'])[ea[1][len(pa):]] > 1 else ea, ['i', eb, [0, 1]] if dict(B['dvars'])[eb[1][len(pb):]] > 1 else eb
                    if dict(A['dvars'])[ea[1][len(pa):] if ea[0] == 'v' else ea[1][1][len(pa):]] == 1 or \
                            dict(B['dvars'])[eb[1][len(pb):] if eb[0] == 'v' else eb[1][1][len(pb):]] == 1:
                        fn = 'vec'
                        ea, eb = ['sum', ['v', pa + a_dv[0]]], ['sum', ['v', pb + b_dv[0]]]
                return [dict(mk, op='expr', id='bad', e=[fn, ea, eb])]
            if kind == 'concat_dvar_rvar' and a_dv and A['kind'] in ('ro', 'dro'):
                a_rv = have(A, sa, [n for n, _ in A['rvars']])
                if a_rv:
                    return [dict(mk, op='expr', id='bad', e=['concat', ['v', pa + rng.choice(a_dv)], ['v', pa + rng.choice(a_rv)]], touch=[pa])]
            if kind == 'cross_maxof' and a_dv and b_dv and A['kind'] in ('ro', 'dro') and B['kind'] in ('ro', 'dro'):
                # the foreign piece is, more often than not, the other model's decision rule / adaptive decision (bi-affine piece)
                bn = 'y' if ('y' in b_dv and rng.random() < 0.6) else rng.choice(b_dv)
                ea, eb = ['sum', ['v', pa + rng.choice(a_dv)]], ['sum', ['v', pb + bn]]
                pieces = [ea, eb] if rng.random() < 0.5 else [ea, ['c', 0.0], eb]
                return [dict(mk, op='expr', id='bad', e=[rng.choice(['maxof', 'minof'])] + pieces)]
            if kind == 'cross_matmul_rvar' and a_dv and b_rv and A['kind'] in ('ro', 'dro'):
                xa = ['i', ['v', pa + rng.choice(a_dv)], [0, 1]]
                zb = ['i', ['v', pb + rng.choice(b_rv)], [0, 1]]
                return [dict(mk, op='expr', id='bad', e=['@', xa, zb] if rng.random() < 0.5 else ['@', zb, xa])]
            if kind == 'cross_convex' and a_dv and b_dv and A['kind'] != 'lp':
                # a convex function of A's variable bounded by (or added to) an expression on B's variable
                va, vb = ['v', pa + rng.choice(a_dv)], ['sum', ['v', pb + rng.choice(b_dv)]]
                cv = rng.choice([['norm', va, 1], ['norm', va, 2], ['norm', va, 'inf'], ['sum', ['f', 'abs', va]]])
                e = rng.choice([['<=', cv, vb], ['>=', vb, cv], ['<=', ['+', cv, vb], ['c', 3.0]], ['<=', ['-', cv, vb], ['c', 3.0]],
                                ['<=', ['+', vb, cv], ['c', 3.0]]])
                return [dict(mk, op='cons', id='bad', e=e)]
            if kind == 'cross_kldiv' and a_dv and b_dv and A['kind'] in ('ro', 'gcp') and B['kind'] in ('ro', 'gcp'):
                match = [(x_, y_) for x_ in a_dv for y_ in b_dv if dict(A['dvars'])[x_] == dict(B['dvars'])[y_]]
                if B.get('ldr') and 'y' in b_dv and a_dv:
                    match = [(a_dv[0], 'y')]       # a decision RULE as reference distribution (sizes need not match to be rejected)
                if match:
                    x_, y_ = rng.choice(match)
                    return [dict(mk, op='call', obj=['v', pa + x_], meth='kldiv', args=[['v', pb + y_], 0.1], to='bad')]
            if kind == 'cross_pscale' and a_dv and b_dv and A['kind'] in ('ro', 'dro') and B['kind'] in ('ro', 'dro'):
                # perspective functions scale * exp(x / scale), scale * log(x / scale) with the SCALE taken from another model
                return [dict(mk, op='expr', id='bad', e=['f', rng.choice(['pexp', 'plog']), ['sum', ['v', pa + rng.choice(a_dv)]],
                                                         ['sum', ['v', pb + rng.choice(b_dv)]]])]
            if kind == 'cross_expcone' and a_dv and b_dv and A['kind'] in ('ro', 'dro') and B['kind'] in ('ro', 'dro'):
                own, foreign = ['sum', ['v', pa + rng.choice(a_dv)]], ['sum', ['v', pb + rng.choice(b_dv)]]
                e_ = rng.choice([['expcone', own, foreign, ['c', 1.0]], ['expcone', own, own, foreign]])
                return [dict(mk, op='expr', id='bad', e=e_)]
            if kind == 'cross_st_cone' and pa + 'm' in sa['built'] and b_dv and A['kind'] not in ('lp',) and \
                    B['kind'] in ('ro', 'socp', 'gcp'):
                xb = ['v', pb + rng.choice([n_ for n_ in b_dv if n_ != 'y'] or b_dv)]        # y may be 2-D
                ce = rng.choice([['<=', ['norm', xb, 2], ['c', 50.0]], ['<=', ['f', 'sumsqr', xb], ['c', 50.0]],
                                 ['<=', ['f', 'abs', xb], ['c', 50.0]], ['<=', ['norm', xb, 1], ['c', 50.0]],
                                 ['<=', ['pnorm', xb, 3, 'soc'], ['c', 50.0]]] +
                                ([['<=', ['f', 'exp', xb], ['c', 50.0]], ['>=', ['f', 'log', ['+', xb, ['c', 60.0]]], ['c', 0.0]]]
                                 if B['kind'] in ('ro', 'gcp') else []))
                o = dict(mk, op='st', m=pa + 'm', ids=['tmpk'])
                if A['kind'] in ('lp', 'socp', 'gcp'):
                    o['aslist'] = True
                return [{'op': 'cons', 'id': 'tmpk', 'e': ce, 'task': pb, 'env': 1}, o]
            if kind == 'cross_st_piecewise' and pa + 'm' in sa['built'] and b_dv and A['kind'] in ('ro', 'dro') and B['kind'] in ('ro', 'dro'):
                xb = ['sum', ['v', pb + rng.choice(b_dv)]]
                ce = ['<=', ['maxof', xb, ['c', 0.0]], ['c', 50.0]]
                if B['kind'] == 'dro' and rng.random() < 0.5:
                    ce = ['<=', ['E', ['maxof', xb, ['c', 0.0]]], ['c', 50.0]]
                return [{'op': 'cons', 'id': 'tmpk', 'e': ce, 'task': pb, 'env': 1}, dict(mk, op='st', m=pa + 'm', ids=['tmpk'])]
            if kind == 'foreign_second_in_list' and a_amb and b_rv:
                a_rv = have(A, sa, [n for n, _ in A['rvars']])
                if a_rv:
                    own = ['<=', ['f', 'abs', ['v', pa + a_rv[0]]], ['c', 3.0]]
                    foreign = ['<=', ['f', 'abs', ['v', pb + rng.choice(b_rv)]], ['c', 1.0]]
                    return [dict(mk, op='supp', amb=pa + a_amb[0], scen=None, set=[own, foreign])]
            if kind == 'call_unsolved' and not sa.get('ever_solved') and a_dv and A['kind'] in ('ro', 'dro', 'lp', 'socp', 'gcp'):
                return [dict(mk, op='get', e=['sum', ['v', pa + rng.choice(a_dv)]], how='call', touch=[pa])]
            if kind == 'cross_mul_rvar' and a_dv and b_rv and A['kind'] not in ('lp', 'socp', 'gcp'):
                return [dict(mk, op='expr', id='bad', e=['*', ['sum', ['v', pa + rng.choice(a_dv)]], ['i', ['v', pb + rng.choice(b_rv)], 0]])]
            if kind == 'cross_add_rvar' and a_dv and b_rv and A['kind'] not in ('lp', 'socp', 'gcp'):
                return [dict(mk, op='expr', id='bad', e=['+', ['sum', ['v', pa + rng.choice(a_dv)]], ['i', ['v', pb + rng.choice(b_rv)], 0]])]
            if kind == 'foreign_set_forall' and a_rob and b_rv and A['kind'] == 'ro':
                zb = pb + rng.choice(b_rv)
                return [dict(mk, op='forall', id=pa + rng.choice(a_rob), to='bad', set=[['<=', ['f', 'abs', ['v', zb]], ['c', 1.0]]])]
            if kind == 'foreign_set_forall_warm' and a_rob and A['kind'] == 'ro' and sb.get('foralls'):
                # the set-constraint OBJECTS the other model has already used in one of its own forall() calls
                return [dict(mk, op='forall', id=pa + rng.choice(a_rob), to='bad', setfrom=rng.choice(sb['foralls']))]
            if kind == 'foreign_amb_forall' and a_rob and b_amb and A['kind'] == 'dro':
                return [dict(mk, op='forall', id=pa + rng.choice(a_rob), to='bad', amb=pb + b_amb[0])]
            if kind == 'foreign_amb_forall_explin' and A['kind'] == 'dro' and a_dv and b_amb:
                return [{'op': 'cons', 'id': 'tmpc', 'e': ['<=', ['E', ['sum', ['v', pa + rng.choice(a_dv)]]], ['c', 100.0]], 'task': pa, 'env': 1},
                        dict(mk, op='forall', id='tmpc', to='bad', amb=pb + b_amb[0])]
            if kind == 'foreign_amb_forall_exppw' and A['kind'] == 'dro' and a_dv and b_amb:
                xv = ['i', ['v', pa + rng.choice(a_dv)], 0]
                return [{'op': 'cons', 'id': 'tmpc', 'e': ['<=', ['E', ['maxof', xv, ['c', 0.0]]], ['c', 100.0]], 'task': pa, 'env': 1},
                        dict(mk, op='forall', id='tmpc', to='bad', amb=pb + b_amb[0])]
            if kind == 'foreign_supp' and a_amb and b_rv:
                zb = pb + rng.choice(b_rv)
                return [dict(mk, op='supp', amb=pa + a_amb[0], scen=None, set=[['<=', ['f', 'abs', ['v', zb]], ['c', 1.0]]])]
            if kind == 'foreign_expt' and a_amb and b_rv and B['kind'] == 'dro':
                zb = pb + rng.choice(b_rv)
                return [dict(mk, op='expt', amb=pa + a_amb[0], scen=None, set=[['<=', ['E', ['v', zb]], ['c', 1.0]]])]
            if kind == 'foreign_prob' and a_amb and B['kind'] == 'dro' and pb + 'm' in sb['built'] and B.get('S') == A.get('S'):
                return [dict(mk, op='prob', amb=pa + a_amb[0], set=[['==', ['v', pb + 'm.p'], ['c', B['p']]]])]
            if kind == 'foreign_amb_objective' and A['kind'] == 'dro' and not sa['obj'] and b_amb and a_dv:
                how = rng.choice(['minsup', 'maxinf'])
                return [dict(mk, op='obj', m=pa + 'm', how=how, e=['E', ['sum', ['v', pa + rng.choice(a_dv)]]], amb=pb + b_amb[0])]
            if kind == 'foreign_set_minmax' and A['kind'] == 'ro' and not sa['obj'] and b_rv and a_dv and pa + 'm' in sa['built']:
                zb = pb + rng.choice(b_rv)
                return [dict(mk, op='obj', m=pa + 'm', how=rng.choice(['minmax', 'maxmin']), e=['sum', ['v', pa + rng.choice(a_dv)]],
                             set=[['<=', ['f', 'abs', ['v', zb]], ['c', 1.0]]])]
            if kind in ('second_objective', 'second_objective_special') and sa['obj'] and a_dv:
                hows = {'lp': ['min', 'max'], 'socp': ['min', 'max'], 'gcp': ['min', 'max'], 'ro': ['min', 'max', 'minmax', 'maxmin'], 'dro': ['min', 'max', 'minsup', 'maxinf']}[A['kind']]
                how = rng.choice(hows)
                sv_ = ['sum', ['v', pa + rng.choice(a_dv)]]
                # the second objective is an affine expression, a plain number, or a piecewise / convex function
                forms = [sv_, sv_, ['c', 3.0], ['maxof', sv_, ['c', 0.0]], ['maxof', sv_, ['*', ['c', 2.0], sv_]]]
                if A['kind'] not in ('lp',) and how in ('min', 'minmax', 'minsup'):
                    forms.append(['f', 'abs', sv_])
                if kind == 'second_objective_special':
                    forms = forms[2:]               # a number, piecewise or convex objective: other code paths than an affine one
                o = dict(mk, op='obj', m=pa + 'm', how=how, e=rng.choice(forms))
                if how in ('minmax', 'maxmin'):
                    o['set'] = []
                if how in ('minsup', 'maxinf'):
                    if not a_amb:
                        continue
                    o['amb'] = pa + a_amb[0]
                    if o['e'][0] != 'c':
                        o['e'] = ['E', o['e']]
                return [o]
            if kind == 'nonscalar_objective' and not sa['obj'] and pa + 'm' in sa['built']:
                big = [n for n in a_dv if dict(A['dvars'])[n] > 1]
                if big:
                    hows = {'lp': ['min', 'max'], 'socp': ['min', 'max'], 'gcp': ['min', 'max'], 'ro': ['min', 'max', 'minmax', 'maxmin'], 'dro': ['min', 'max', 'minsup', 'maxinf']}[A['kind']]
                    how = rng.choice(hows)
                    vn = rng.choice(big)
                    sz = dict(A['dvars'])[vn]
                    vv = ['v', pa + vn]
                    # the whole array, slices that still hold several entries, and vector expressions
                    forms = [vv, vv, ['i', vv, [0, 2]], ['i', vv, [1, sz]] if sz > 2 else ['i', vv, [0, sz]],
                             ['i', vv, {'l': [0, sz - 1]}], ['*', ['c', 2.0], vv], ['+', vv, ['c', 1.0]], ['neg', vv]]
                    if A['kind'] == 'dro':
                        forms += [['E', vv], ['E', ['i', vv, [0, 2]]]]
                    o = dict(mk, op='obj', m=pa + 'm', how=how, e=rng.choice(forms))
                    if how in ('minmax', 'maxmin'):
                        o['set'] = []
                    if how in ('minsup', 'maxinf'):
                        if not a_amb:
                            continue
                        o['amb'] = pa + a_amb[0]
                    return [o]
            if kind == 'read_unsolved' and not sa.get('ever_solved') and pa + 'm' in sa['built']:
                tgt = rng.choice([['v', pa + 'm']] + [['v', pa + n] for n in a_dv])
                return [dict(mk, op='get', e=tgt, how='get')]
            if kind == 'read_failed' and sa['done']:
                sv = rng.choice(A['pool'])
                from machines.hist import FAULTS_BY_ENGINE
                f = dict(rng.choice([f for f in FAULTS_BY_ENGINE[sv] if f['kind'] == 'status' and not f.get('incumbent')]))
                tgt = rng.choice([['v', pa + 'm']] + [['v', pa + n] for n in a_dv])
                sa['solved'] = False
                sa['failed'] = True
                sa['ever_solved'] = True
                return [{'op': 'solve', 'm': pa + 'm', 'solver': sv, 'fault': f, 'env': 1, 'task': pa},
                        dict(mk, op='get', e=tgt, how='get')]
            if kind == 'ambiguity_after_constraints' and A['kind'] == 'dro' and sa['st']:
                return [dict(mk, op='amb', id='bad', m=pa + 'm')]
            if kind == 'foreign_adapt_ldr' and A.get('ldr') and b_rv and pa + 'y' in sa['built'] and not sa.get('y_used'):
                d_ = A['ldr']
                tgt = rng.choice([['v', pa + 'y'], ['i', ['v', pa + 'y'], 0], ['i', ['v', pa + 'y'], [0, d_]]] +
                                 ([['i', ['v', pa + 'y'], [1, d_]]] if d_ > 1 else []))
                zb = pb + rng.choice(b_rv)
                to = rng.choice([['v', zb], ['i', ['v', zb], [0, 1]]])
                return [dict(mk, op='adapt', tgt=tgt, to=to)]
            if kind == 'foreign_scen_adapt' and A['kind'] == 'dro' and B['kind'] == 'dro' and b_amb and a_dv and not sa['st'] \
                    and 't' in a_dv and not sa.get('t_adapted'):
                # event-wise adaptation to scenarios taken from the OTHER model's ambiguity set
                lab = B['labels'][0]
                sc = lab if B['labels'] == list(range(len(B['labels']))) else {'loc': lab}
                return [dict(mk, op='adapt', tgt=['v', pa + 't'], to={'fset': [pb + b_amb[0], sc]})]
            if kind == 'foreign_adapt' and a_dv and b_rv and A['kind'] == 'dro' and not sa['st'] and 'y' in a_dv:
                return [dict(mk, op='adapt', tgt=['v', pa + 'y'], to=['v', pb + rng.choice(b_rv)])]
    return None


# --------------------------------------------------------------------------------------------------
# oracles
# --------------------------------------------------------------------------------------------------

def hist_mod():
    from machines import hist
    return hist


def isolated(mm):
    """result of the declared model built alone"""
    sv = mm['pool'][0]
    it, w = interp.run_ops(mm['rops'] + [{'op': 'solve', 'm': mm['pre'] + 'm', 'solver': sv}])
    bad = [r for r in it.log[:-1] if not r['ok']]
    return it.log[-1], bad, sv


def close(a, b, tol):
    return abs(a - b) <= tol * (1 + abs(b))


def check_case(case, props):
    viols = []
    mode = case['mode']
    models = case['models']
    stats = {'runs': 1, 'events': 0, 'modes': {mode: 1}, 'kinds': {}, 'misuse_attempted': {}, 'misuse_rejected': {},
             'faults_fired': {}, 'inconclusive': {}, 'sim_seconds': 0.0, 'isolation_checks': 0, 'alternations': 0,
             'observations': {}, 'nontrivial_sigs': [], 'sigs': [], 'probes': {}, 'solves_healthy': {}}
    for mm in models:
        stats['kinds'][mm['kind']] = stats['kinds'].get(mm['kind'], 0) + 1

    def viol(oracle, detail, tags=(), exc=None, mis=''):
        viols.append({'prop': 'C17', 'oracle': oracle, 'sig': 'C17|%s|%s|%s' % (oracle, mis, exc or ''), 'detail': detail,
                      'tags': sorted(set(tags) | ({mis} if mis else set())), 'exc': exc or ''})

    # isolated builds BEFORE
    before = []
    for mm in models:
        r, bad, sv = isolated(mm)
        if bad or not r['ok'] or r['out']['sol'] != 'opt':
            stats['inconclusive']['isolated_build_not_optimal'] = 1
            return {'violations': viols, 'stats': stats}
        before.append((r['out']['obj'], sv))

    rs = interp.RS.get()
    w = W.World()
    it = interp.Interp(rs, w)
    polluted = set()
    skip_next_misuse = False
    last_task = None
    aborted = False
    with W.Bound(w, rs):
        for op in case['ops']:
            t = op.get('task', '-')
            if t != '-' and t != last_task:
                stats['alternations'] += 1
                last_task = t
            if op.get('expect') == 'raise' and skip_next_misuse:
                skip_next_misuse = False
                continue
            rec = it.step(op)
            stats['events'] += 1
            if op.get('expect') == 'raise':
                k = op['mis']
                stats['misuse_attempted'][k] = stats['misuse_attempted'].get(k, 0) + 1
                if rec['ok']:
                    viol('misuse-accepted', 'misuse %s was accepted silently: %s' % (k, {kk: vv for kk, vv in op.items()
                                                                                     if kk not in ('task', 'expect', 'mis')}), mis=k)
                    aborted = True
                    break
                stats['misuse_rejected'][k] = stats['misuse_rejected'].get(k, 0) + 1
                polluted.update(op.get('touch', [t]))
                continue
            if op.get('id') in ('tmpk', 'tmpc') and op['op'] == 'cons' and not rec['ok']:
                skip_next_misuse = True        # the temporary object of a misuse could not be built: nothing to misuse
                it.env.pop(op['id'], None)
                continue
            if op['op'] in ('solve',) and op.get('env'):
                if rec['ok'] and not op.get('fault') and rec['out']['sol'] == 'opt':
                    stats['solves_healthy'][op['solver']] = stats['solves_healthy'].get(op['solver'], 0) + 1
                continue
            if not rec['ok']:
                if t in polluted:
                    stats['observations']['build_step_raises_after_rejected_misuse'] = \
                        stats['observations'].get('build_step_raises_after_rejected_misuse', 0) + 1
                    aborted = True
                    break
                viol('interleaved-build-raises', 'step %s of model %s raised %s when interleaved with other models: %s'
                     % (op['op'], t, rec['exc'], rec.get('msg')), exc=':'.join(rec['exc']))
                aborted = True
                break
        if not aborted:
            # every model: result equals its isolated build
            for mm, (obj0, sv) in zip(models, before):
                rec = it.step({'op': 'solve', 'm': mm['pre'] + 'm', 'solver': sv})
                stats['events'] += 1
                if not rec['ok']:
                    if mm['pre'] in polluted:
                        stats['observations']['solve_raises_after_rejected_misuse'] = 1
                        continue
                    viol('interleaved-solve-raises', 'model %s (%s): solve raised %s after interleaved build: %s'
                         % (mm['pre'], mm['kind'], rec['exc'], rec.get('msg')), exc=':'.join(rec['exc']))
                    continue
                out = rec['out']
                if out['sol'] != 'opt':
                    if mm['pre'] in polluted:
                        stats['observations']['not_optimal_after_rejected_misuse'] = 1
                    elif out['sol'] == 'inconclusive':
                        stats['inconclusive']['engine_limit:%s' % out.get('status')] = 1
                    elif hist_mod().engine_refuses_solvable(it, mm['pre'] + 'm', sv):
                        stats['inconclusive']['engine_defect_status:%s' % sv] = 1
                    else:
                        viol('models-interfere', 'model %s (%s): %s reports no optimum (status %s) after the interleaved run, the same '
                             'declared model built alone solved to %.9g with the same interface'
                             % (mm['pre'], mm['kind'], sv, out.get('status'), obj0))
                    continue
                stats['isolation_checks'] += 1
                if not close(out['obj'], obj0, mm['tol']):
                    if mm['pre'] in polluted:
                        stats['observations']['result_changed_after_rejected_misuse'] = \
                            stats['observations'].get('result_changed_after_rejected_misuse', 0) + 1
                    elif hist_mod().engine_at_fault(it, mm['pre'] + 'm', sv, mm['tol']):
                        stats['inconclusive']['engine_defect:%s' % sv] = 1
                    else:
                        viol('models-interfere', 'model %s (%s) built interleaved with %s gives %.9g, built alone %.9g'
                             % (mm['pre'], mm['kind'], [m_['kind'] for m_ in models if m_ is not mm], out['obj'], obj0))
    # isolated builds AFTER (process-global state)
    if not aborted:
        for mm, (obj0, sv) in zip(models, before):
            r, bad, _ = isolated(mm)
            if bad or not r['ok'] or r['out']['sol'] != 'opt':
                viol('isolated-build-changed', 'model %s (%s) built alone AFTER the interleaved run fails (%s) although it built '
                     'before' % (mm['pre'], mm['kind'], r.get('exc') or r.get('out')))
                continue
            stats['isolation_checks'] += 1
            if not close(r['out']['obj'], obj0, 1e-9):
                viol('isolated-build-changed', 'model %s (%s) built alone gives %.12g before and %.12g after the interleaved run'
                     % (mm['pre'], mm['kind'], obj0, r['out']['obj']))
    for kk, vv in w.fired.items():
        stats['faults_fired'][kk] = stats['faults_fired'].get(kk, 0) + vv
    stats['sim_seconds'] += w.simulated_seconds
    sig = digest([[m_['kind'] for m_ in models], [o.get('task') for o in case['ops']], [o.get('mis') for o in case['ops'] if o.get('mis')]])
    stats['sigs'].append(sig)
    if stats['alternations'] >= 3 and (stats['misuse_attempted'] or stats['isolation_checks'] >= 2):
        stats['nontrivial_sigs'].append(sig)
    if stats['alternations'] >= 3:
        stats['probes']['models_alternated_3_times'] = 1
    return {'violations': viols, 'stats': stats}


def sample_of(case):
    return {'mode': case['mode'], 'kinds': [m['kind'] for m in case['models']],
            'trace': [(o.get('task'), o['op'], o.get('mis')) for o in case['ops']][:80]}


def shrink_candidates(case, viol):
    """drop other misuse operations (together with the temporary object built for them), then environment events, then
    everything after the failing misuse.  A temporary object and the misuse that consumes it are one unit."""
    ops = case['ops']

    def is_tmp(o):
        return o.get('id') in ('tmpk', 'tmpc') and o['op'] == 'cons'
    for i, op in enumerate(ops):
        if op.get('expect') == 'raise' and op.get('mis') not in viol.get('tags', []):
            c = copy.deepcopy(case)
            lo = i - 1 if i > 0 and is_tmp(ops[i - 1]) else i
            del c['ops'][lo:i + 1]
            yield c
    for i, op in enumerate(ops):
        if op.get('env') and not is_tmp(op):
            c = copy.deepcopy(case)
            del c['ops'][i]
            yield c
    for i, op in enumerate(ops):
        if op.get('mis') in viol.get('tags', []) and i + 1 < len(ops):
            c = copy.deepcopy(case)
            c['ops'] = c['ops'][:i + 1]
            yield c
            break
