"""M-DET: ambient-nondeterminism simulator for C19.

The same explicit op list is executed in several *worlds* that differ only in what the declaration does not
contain, and nothing may move:

  W0  baseline (this process, PYTHONHASHSEED=0, main thread)
  W1  same process, worker thread, global RNGs reseeded and pre-consumed, other clock epoch, gc.collect() + junk
      allocations between ops, user arrays handed over in another memory layout (F-order / strided view / read-only /
      int64 where exact)
  W2  fresh interpreter with PYTHONHASHSEED=1 (kept warm, fed over a pipe), read-only arrays
  W3  fresh interpreter with another PYTHONHASHSEED, gc variation, strided arrays

Invariants: (i) bit-level digest of primal and dual standard forms equal across worlds (-0.0 == 0.0);
(ii) random / numpy.random global state untouched; (iii) every user-supplied array has the same bytes after every
op and read-only arrays raise nowhere their writable twins do not (per-op outcome logs equal);
(iv) repeating do_math(primal) / do_math(dual) / solve(k) / soc_solve(k) - including solves that fail through an
injected engine fault or a clock jump - leaves the cached forms unchanged and returns the same answer.
"""
import os
import sys
import gc
import json
import copy
import random
import threading
import subprocess
import atexit

import numpy as np

from sim import interp, gen
from sim import world as W
from sim.runner import subseed, digest, VERIF

NAME = 'M-DET'
PROPS = ['C19']
LEVEL = 'exploration'
RULE = ('case = one declared model (op list from the M-HIST / M-PEER / M-PART generators: ro, dro, deterministic conic '
        'programs) x 4 worlds (hash seeds in fresh interpreters, RNG state, clock epoch, GC/allocation pattern, thread, '
        'array layout) + a seeded repetition sequence of formulate/solve/soc_solve/faulted solves; distinct = distinct op-list '
        'digest; non-trivial = >=3 worlds produced a standard form that was compared and >=3 repetition steps were checked')
ASSUMPTIONS = [
    'digest covers linear (sorted CSR), const, sense, vtype, ub, lb, obj, qmat, xmat of the compiled program',
    'float32 user data legitimately changes numbers, so only value-preserving layouts are compared bit-wise',
    'threads: one worker thread at a time (no concurrency claim is made by the property)',
]
COMPONENTS = {
    'real': ['rsome/* from the tree under test in 3 interpreters (hash seeds 0, 1, 4242)', 'real engines behind proxies'],
    'stub': ['clock', 'stdout sink', 'engine fault plan'],
}


# --------------------------------------------------------------------------------------------------
# digests of compiled programs
# --------------------------------------------------------------------------------------------------

def _f(a):
    a = np.array(a, dtype=float, copy=True).reshape(-1)
    a[a == 0] = 0.0            # -0.0 == 0.0
    return a.tobytes().hex()


def form_digest(f):
    A = f.linear.tocsr().copy()
    A.sum_duplicates()
    A.sort_indices()
    A.eliminate_zeros()
    parts = [list(map(int, A.shape)), A.indptr.astype(np.int64).tobytes().hex(), A.indices.astype(np.int64).tobytes().hex(),
             _f(A.data), _f(f.const), _f(f.sense), ''.join(str(v) for v in np.asarray(f.vtype).reshape(-1)),
             _f(f.ub), _f(f.lb), _f(f.obj),
             [list(map(int, q)) for q in getattr(f, 'qmat', [])], [list(map(int, q)) for q in getattr(f, 'xmat', [])]]
    return digest(parts)


def forms_differ(f, g, rtol=1e-12):
    if f is None or g is None:
        return 'a form is missing'
    A, B = f.linear.tocsr().copy(), g.linear.tocsr().copy()
    for M in (A, B):
        M.sum_duplicates()
        M.sort_indices()
    if A.shape != B.shape:
        return 'shapes %s vs %s' % (A.shape, B.shape)
    if not (np.array_equal(A.indptr, B.indptr) and np.array_equal(A.indices, B.indices)):
        return 'sparsity patterns differ'
    pairs = [('linear', A.data, B.data), ('const', f.const, g.const), ('ub', f.ub, g.ub), ('lb', f.lb, g.lb), ('obj', f.obj, g.obj),
             ('sense', f.sense, g.sense)]
    for nm, a, b in pairs:
        a, b = np.asarray(a, float).reshape(-1), np.asarray(b, float).reshape(-1)
        if a.shape != b.shape:
            return '%s sizes differ' % nm
        with np.errstate(invalid='ignore'):
            bad = ~((a == b) | (np.abs(a - b) <= rtol * (1 + np.abs(b))))
        if bad.any():
            i = int(np.argmax(bad))
            return '%s[%d]: %r vs %r' % (nm, i, a[i], b[i])
    if list(np.asarray(f.vtype).reshape(-1)) != list(np.asarray(g.vtype).reshape(-1)):
        return 'vtype differs'
    if [list(map(int, q)) for q in getattr(f, 'qmat', [])] != [list(map(int, q)) for q in getattr(g, 'qmat', [])]:
        return 'qmat differs'
    if [list(map(int, q)) for q in getattr(f, 'xmat', [])] != [list(map(int, q)) for q in getattr(g, 'xmat', [])]:
        return 'xmat differs'
    return None


# --------------------------------------------------------------------------------------------------
# one world
# --------------------------------------------------------------------------------------------------

class Arrays:
    """hands user data to RSOME in a chosen memory layout and remembers every array to detect writes"""

    def __init__(self, layout):
        self.layout = layout
        self.given = []
        self.pool = {}              # 'reuse' world: (op index, n-th constant of that op) -> the user's buffer
        self.phase = None           # 'decoy' | 'real'
        self.cur_op = 0
        self.nth = 0
        self.fresh = []
        self.recycled = 0

    def at_op(self, i):
        self.cur_op, self.nth = i, 0

    def recycle(self):
        """'recycle' world: the buffers handed over during the last op are overwritten with other numbers"""
        for a in self.fresh:
            a[...] = a * 1.5 + 0.25
            self.recycled += 1
        self.fresh = []

    def __call__(self, v):
        if not isinstance(v, np.ndarray):
            return v
        lay = self.layout
        if lay == 'reuse':
            # the user keeps ONE buffer per coefficient array and refreshes it in place between two builds: the first
            # (decoy) build sees other numbers in the very same array objects
            key = (self.cur_op, self.nth)
            self.nth += 1
            if self.phase == 'decoy':
                a = np.array(v, dtype=float) * 1.5 + 0.25
                self.pool[key] = a
                return a
            a = self.pool.get(key)
            if a is None or a.shape != v.shape:
                a = np.array(v, dtype=float)
            else:
                a[...] = v
                self.reused = getattr(self, 'reused', 0) + 1
            self.given.append((a, a.tobytes(), a.dtype.str, a.shape))
            return a
        a = np.array(v, dtype=float)
        if lay == 'recycle':
            # the user recycles every buffer right after the call that received it (see recycle())
            self.fresh.append(a)
            return a
        if lay == 'F':
            a = np.asfortranarray(a)
        elif lay == 'strided':
            big = np.zeros(a.shape[:-1] + (a.shape[-1] * 2,), dtype=float) if a.ndim else None
            if big is not None:
                big[..., ::2] = a
                a = big[..., ::2]
        elif lay == 'int64':
            if np.all(a == np.round(a)):
                a = a.astype(np.int64)
        elif lay == 'readonly':
            a.flags.writeable = False
        elif lay == 'float32':
            a = a.astype(np.float32)
        elif lay == 'int32':
            if np.all(a == np.round(a)):
                a = a.astype(np.int32)
        elif lay == 'longdouble':
            a = a.astype(np.longdouble)
        self.given.append((a, a.tobytes(), a.dtype.str, a.shape))
        return a

    def matmul_left(self, v):
        """constant left operand of a matrix product: in the 'csr' world a 2-D array becomes a scipy CSR matrix in a legal
        but NON-canonical form (column indices unsorted within each row, one entry split into two duplicates), whose three
        buffers are watched like any other user array"""
        if self.layout != 'csr' or not isinstance(v, np.ndarray) or v.ndim != 2:
            return self(v)
        import scipy.sparse as sp
        a = np.array(v, dtype=float)
        data, indices, indptr = [], [], [0]
        for i in range(a.shape[0]):
            cols = [j for j in range(a.shape[1]) if a[i, j] != 0.0][::-1]
            for k_, j in enumerate(cols):
                if k_ == 0 and len(cols) > 1:
                    data += [a[i, j] * 0.25, a[i, j] * 0.75]
                    indices += [j, j]
                else:
                    data.append(a[i, j])
                    indices.append(j)
            indptr.append(len(data))
        m = sp.csr_matrix((np.array(data, dtype=float), np.array(indices, dtype=np.int32), np.array(indptr, dtype=np.int32)),
                          shape=a.shape)
        for buf in (m.data, m.indices, m.indptr):
            self.given.append((buf, buf.tobytes(), buf.dtype.str, buf.shape))
        self.sparse_given = getattr(self, 'sparse_given', 0) + 1
        return m

    def intact(self):
        for a, b, dt, sh in self.given:
            if a.tobytes() != b or a.dtype.str != dt or a.shape != sh:
                return False
        return True


def run_world(ops, wc, keep=False):
    """Execute the declaration ops in one world; returns digests (JSON-able; raw forms too with keep=True)."""
    out = {}

    def body():
        rs = interp.RS.get()
        random.seed(wc.get('rng_seed', 0))
        np.random.seed(wc.get('rng_seed', 0) % (2 ** 32))
        for _ in range(wc.get('rng_burn', 0)):
            random.random()
            np.random.rand()
        st_py = random.getstate()
        st_np = np.random.get_state()
        arrs = Arrays(wc.get('layout', 'C'))
        w = W.World(epoch=wc.get('epoch', 1.7e9))
        if wc.get('layout') == 'reuse':
            # decoy build: same declaration steps, other numbers, in the buffers the real build will be handed again
            arrs.phase = 'decoy'
            it_d = interp.Interp(rs, W.World(epoch=wc.get('epoch', 1.7e9)), hooks={'const': arrs})
            with W.Bound(it_d.w, rs):
                for i, op in enumerate(ops):
                    arrs.at_op(i)
                    it_d.step(copy.deepcopy(op))
                try:
                    it_d.env['m'].do_math()
                except Exception:
                    pass
            arrs.phase = 'real'
        it = interp.Interp(rs, w, hooks={'const': arrs, 'matmul_left': arrs.matmul_left} if wc.get('layout') == 'csr' else {'const': arrs})
        if wc.get('gc') == 'off':
            gc.disable()
        arrays_ok = True
        first_bad = None
        try:
            with W.Bound(w, rs):
                for i, op in enumerate(ops):
                    arrs.at_op(i)
                    it.step(op)
                    if arrs.layout == 'recycle':
                        arrs.recycle()
                    if wc.get('gc') == 'collect':
                        junk = [bytearray(32 + 16 * (k % 7)) for k in range(40)]
                        del junk
                        gc.collect()
                    if arrays_ok and not arrs.intact():
                        arrays_ok = False
                        first_bad = i
                m = it.env.get('m')
                forms = {}
                order = (('dual', False), ('primal', True)) if wc.get('dual_first') else (('primal', True), ('dual', False))
                for nm, primal in order:
                    try:
                        fobj = m.do_math(primal=primal)
                        forms[nm] = form_digest(fobj)
                        if keep:
                            out.setdefault('_raw', {})[nm] = fobj
                    except Exception as e:
                        forms[nm] = 'EXC:' + type(e).__name__
                    if arrays_ok and not arrs.intact():
                        arrays_ok = False
                        first_bad = 'do_math(%s)' % nm
        finally:
            if wc.get('gc') == 'off':
                gc.enable()
        s2 = random.getstate()
        n2 = np.random.get_state()
        rng_ok = (s2 == st_py) and (n2[0] == st_np[0] and np.array_equal(n2[1], st_np[1]) and n2[2:] == st_np[2:])
        out.update({'forms': forms, 'log': digest([[r['op'], r['ok'], r.get('exc')] for r in it.log]),
                    'log_raw': [[r['op'], r['ok'], r.get('exc')] for r in it.log if not r['ok']][:3],
                    'rng_ok': bool(rng_ok), 'arrays_ok': arrays_ok, 'first_bad': first_bad, 'narrays': len(arrs.given)})

    if wc.get('thread'):
        err = []

        def tgt():
            try:
                body()
            except BaseException as e:       # pragma: no cover
                err.append(repr(e))
        t = threading.Thread(target=tgt, name='det-world')
        t.start()
        t.join()
        if err:
            out['error'] = err[0]
    else:
        body()
    return out


# --------------------------------------------------------------------------------------------------
# warm child interpreters (other hash seeds)
# --------------------------------------------------------------------------------------------------

_CHILDREN = {}


def _child(hashseed):
    ch = _CHILDREN.get(hashseed)
    if ch is not None and ch.poll() is None:
        return ch
    env = dict(os.environ, PYTHONHASHSEED=str(hashseed))
    ch = subprocess.Popen([sys.executable, '-m', 'machines.det_child'], cwd=VERIF, env=env,
                          stdin=subprocess.PIPE, stdout=subprocess.PIPE, stderr=subprocess.DEVNULL, text=True, bufsize=1)
    _CHILDREN[hashseed] = ch
    return ch


def _close_children():
    for ch in _CHILDREN.values():
        try:
            ch.stdin.close()
            ch.terminate()
        except Exception:
            pass


atexit.register(_close_children)


def run_in_child(hashseed, ops, wc):
    ch = _child(hashseed)
    ch.stdin.write(json.dumps({'ops': ops, 'wc': wc}) + '\n')
    ch.stdin.flush()
    line = ch.stdout.readline()
    if not line:
        raise RuntimeError('child interpreter (PYTHONHASHSEED=%s) died' % hashseed)
    return json.loads(line)


# --------------------------------------------------------------------------------------------------
# cases
# --------------------------------------------------------------------------------------------------

def gen_misc(rng):
    """operator paths that take user arrays of many shapes: 2-D @ 2-D variable, variable @ 2-D, element-wise products,
    transposes, quad(x, Q), norm(M @ x + v), kldiv(p, phat, r), array bounds, robust rows with 2-D coefficient arrays"""
    r_, c_ = rng.randint(2, 3), rng.randint(2, 3)
    n = rng.randint(2, 3)

    def mat(a, b, lo=-1.0, hi=1.0):
        return [[gen.r2(rng, lo, hi) for _ in range(b)] for _ in range(a)]
    ops = [{'op': 'model', 'id': 'm', 'kind': 'ro'}, {'op': 'dvar', 'id': 'X', 'm': 'm', 'shape': [r_, c_]},
           {'op': 'dvar', 'id': 'x', 'm': 'm', 'shape': [n]}, {'op': 'dvar', 'id': 'p', 'm': 'm', 'shape': [3]},
           {'op': 'rvar', 'id': 'z', 'm': 'm', 'shape': [2]}]
    cons = [['<=', ['@', ['c', mat(r_, r_)], ['v', 'X']], ['c', mat(r_, c_, 3, 6)]],
            ['<=', ['@', ['v', 'X'], ['c', mat(c_, 2)]], ['c', mat(r_, 2, 3, 6)]],
            ['<=', ['*', ['c', mat(r_, c_, 0.5, 2)], ['v', 'X']], ['c', 5.0]],
            ['>=', ['v', 'X'], ['c', mat(r_, c_, -3, -1)]], ['<=', ['v', 'X'], ['c', mat(r_, c_, 1, 3)]],
            ['<=', ['@', ['c', mat(c_, c_)], ['T', ['v', 'X']]], ['c', mat(c_, r_, 4, 8)]],
            ['>=', ['v', 'x'], ['c', [gen.r2(rng, -3, -1) for _ in range(n)]]], ['<=', ['v', 'x'], ['c', [gen.r2(rng, 1, 3) for _ in range(n)]]],
            ['<=', ['norm', ['+', ['@', ['c', mat(2, n)], ['v', 'x']], ['c', [0.1, -0.2]]], 2], ['c', 9.0]],
            ['>=', ['v', 'p'], ['c', [0.01] * 3]], ['==', ['sum', ['v', 'p']], ['c', 1.0]],
            ['kl', ['v', 'p'], [0.2, 0.3, 0.5], 0.2]]
    L = mat(n, n)
    Q = [[sum(L[i][k] * L[j][k] for k in range(n)) + (1.0 if i == j else 0.0) for j in range(n)] for i in range(n)]
    cons.append(['<=', ['quad', ['v', 'x'], Q], ['c', 20.0]])
    Qn = [[-v for v in row] for row in Q]
    cons.append(['>=', ['quad', ['v', 'x'], Qn], ['c', -25.0]])
    cons.append(['<=', ['+', ['sum', ['*', ['c', mat(1, n)[0]], ['v', 'x']]], ['@', ['c', [gen.nz2(rng), gen.nz2(rng)]], ['v', 'z']]], ['c', 30.0]])
    # atoms whose PARAMETERS are user arrays: exponents of power, weights of gmean, scales of pexp / plog
    xs = ['+', ['v', 'x'], ['c', 4.0]]            # positive on the box of x
    cons.append(['<=', ['f', 'power', xs, ['c', [float(rng.choice([2, 3])) for _ in range(n)]], ['c', [1.0] * n]], ['c', 400.0]])
    cons.append(['>=', ['f', 'gmean', xs, ['c', [float(rng.randint(1, 3)) for _ in range(n)]]], ['c', 0.5]])
    cons.append(['<=', ['f', 'pexp', ['v', 'x'], ['c', [gen.r2(rng, 0.5, 2) for _ in range(n)]]], ['c', 60.0]])
    cons.append(['>=', ['f', 'plog', xs, ['c', [gen.r2(rng, 0.5, 2) for _ in range(n)]]], ['c', -5.0]])
    for i, c in enumerate(cons):
        ops.append({'op': 'cons', 'id': 'k%d' % i, 'e': c})
    ops.append({'op': 'st', 'm': 'm', 'ids': ['k%d' % i for i in range(len(cons))]})
    obj = ['+', ['+', ['sum', ['*', ['c', mat(r_, c_)], ['v', 'X']]], ['@', ['c', [gen.nz2(rng) for _ in range(n)]], ['v', 'x']]],
           ['+', ['@', ['c', [1.0, -2.0, 0.5]], ['v', 'p']], ['@', ['c', [0.3, -0.4]], ['v', 'z']]]]
    ops.append({'op': 'obj', 'm': 'm', 'how': 'minmax', 'e': obj, 'set': [['<=', ['f', 'abs', ['v', 'z']], ['c', [1.0, 2.0]]]]})
    return ops


def gen_case(seed, cfg):
    rng = random.Random(seed)
    no_soc = False
    src = rng.choice(cfg.get('sources', ['hist', 'hist', 'peer', 'peer', 'part', 'misc']))
    if src == 'hist':
        from machines import hist
        hc = hist.gen_case(subseed(seed, 'h'), {'schedules': 0})
        ops = hist.canon_ops(hc['decl'])
        pool = hc['decl']['pool']
        cone = hc['decl']['cone']
        no_soc = hc['decl']['family'] in ('front-lp', 'front-socp')      # lp.Model / socp.Model have no soc_solve
    elif src == 'peer':
        from machines import peer
        prog = peer.gen_program(random.Random(subseed(seed, 'p')), {})
        ops = prog['ops']
        pool = peer.capable(prog['cls'])
        cone = {'LP': 'lp', 'MILP': 'lp', 'SOCP': 'soc', 'MISOCP': 'soc', 'EXP': 'exp'}[prog['cls']]
    elif src == 'misc':
        ops = gen_misc(random.Random(subseed(seed, 'm')))
        pool = ['eco']
        cone = 'exp'
    else:
        from machines import part
        pc = part.gen_combo(random.Random(subseed(seed, 'q')), {}, rng.choice(['dro', 'ro']))
        ops = pc['ops']
        pool = pc['pool']
        cone = 'lp'
    for op in ops:
        op.pop('blocks', None)
    layouts = ['F', 'strided', 'readonly', 'int64']
    worlds = [
        {'name': 'W0', 'where': 'here', 'layout': 'C', 'rng_seed': 0, 'epoch': 1.7e9},
        {'name': 'W1', 'where': 'here', 'thread': True, 'layout': 'C', 'rng_seed': rng.randrange(10 ** 6),
         'rng_burn': rng.randint(1, 50), 'epoch': rng.choice([0.0, 4.1e9, 1.0e9]), 'gc': 'collect'},
        {'name': 'W2', 'where': 'child', 'hashseed': 1, 'layout': 'C', 'rng_seed': rng.randrange(10 ** 6),
         'rng_burn': rng.randint(0, 20), 'epoch': 1.2e9},
        {'name': 'W3', 'where': 'child', 'hashseed': 4242, 'layout': 'C', 'rng_seed': 7,
         'epoch': 2.2e9, 'gc': rng.choice(['off', 'collect'])},
        {'name': 'W4', 'where': 'here', 'layout': rng.choice(layouts), 'rng_seed': 3, 'epoch': 1.7e9, 'numeric': True},
        {'name': 'W5', 'where': 'here', 'layout': 'readonly', 'rng_seed': 3, 'epoch': 1.7e9, 'numeric': True},
        # other numeric dtypes: only "no write into the user's arrays" and "global RNG untouched" are judged
        {'name': 'W7', 'where': 'here', 'layout': rng.choice(['float32', 'int32', 'longdouble', 'csr', 'csr']), 'rng_seed': 5, 'epoch': 1.7e9,
         'dtype_only': True},
        # same declaration, but the dual is formulated before the primal
        {'name': 'W6', 'where': 'here', 'layout': 'C', 'rng_seed': 0, 'epoch': 1.7e9, 'dual_first': True},
        # the same array objects served an earlier build with other numbers and were refreshed in place (bit-wise comparison)
        {'name': 'W8', 'where': 'here', 'layout': 'reuse', 'rng_seed': 0, 'epoch': 1.7e9},
        # every user array is overwritten with other numbers right after the call that received it: what was declared is
        # what the arrays held at the time of the call (bit-wise comparison)
        {'name': 'W9', 'where': 'here', 'layout': 'recycle', 'rng_seed': 0, 'epoch': 1.7e9},
    ]
    # repetition sequence (iv)
    from machines.hist import FAULTS_BY_ENGINE
    reps = []
    for _ in range(rng.randint(3, 8)):
        k = rng.choice(['primal', 'dual', 'solve', 'solve', 'soc_solve', 'fault', 'clock', 'export', 'dualq'])
        if k == 'soc_solve' and no_soc:
            k = 'solve'
        if k == 'primal':
            reps.append({'op': 'formulate', 'm': 'm', 'primal': True})
        elif k == 'dual':
            reps.append({'op': 'formulate', 'm': 'm', 'primal': False})
        elif k == 'solve':
            reps.append({'op': 'solve', 'm': 'm', 'solver': rng.choice(pool), 'display': rng.random() < 0.3})
        elif k == 'soc_solve':
            sv = rng.choice([s for s in pool if s in ('eco', 'grb')] or pool)
            reps.append({'op': 'soc_solve', 'm': 'm', 'solver': sv})
        elif k == 'fault':
            sv = rng.choice(pool)
            reps.append({'op': 'solve', 'm': 'm', 'solver': sv, 'fault': dict(rng.choice(FAULTS_BY_ENGINE[sv]))})
        elif k == 'clock':
            reps.append({'op': 'solve', 'm': 'm', 'solver': rng.choice(pool),
                         'fault': {'kind': 'clock_step', 'steps': [rng.choice([-7200.0, 1e8])]}})
        elif k == 'dualq':
            reps.append({'op': 'dualq', 'ids': [o['id'] for o in ops if o['op'] == 'cons']})
        else:
            reps.append({'op': 'export', 'm': 'm', 'how': rng.choice(['show', 'lp_export', 'repr', 'to_lp']),
                         'primal': rng.random() < 0.7})
    return {'src': src, 'ops': ops, 'worlds': worlds, 'reps': reps, 'cone': cone, 'seed': seed}


def check_case(case, props):
    viols = []
    stats = {'runs': 1, 'worlds_run': 0, 'forms_compared': 0, 'rep_steps': 0, 'events': 0, 'arrays_watched': 0,
             'faults_fired': {}, 'inconclusive': {}, 'sources': {case['src']: 1}, 'sim_seconds': 0.0,
             'nontrivial_sigs': [], 'layouts': {}, 'solves_healthy': {}, 'probes': {}}

    def viol(oracle, detail, tags=()):
        viols.append({'prop': 'C19', 'oracle': oracle, 'sig': 'C19|%s|%s' % (oracle, case['src']), 'detail': detail,
                      'tags': sorted(set(tags) | {case['src']}), 'exc': ''})

    ops = case['ops']
    res = {}
    for wc in case['worlds']:
        try:
            if wc['where'] == 'child':
                if os.environ.get('VERIF_DET_NOCHILD'):
                    continue
                res[wc['name']] = run_in_child(wc['hashseed'], ops, wc)
            else:
                res[wc['name']] = run_world(copy.deepcopy(ops), wc, keep=True)
        except Exception as e:
            stats['inconclusive']['world_failed:%s:%s' % (wc['name'], type(e).__name__)] = 1
            continue
        stats['worlds_run'] += 1
        stats['layouts'][wc.get('layout', 'C')] = stats['layouts'].get(wc.get('layout', 'C'), 0) + 1
        stats['arrays_watched'] += res[wc['name']].get('narrays', 0)
    base = res.get('W0')
    if base is None:
        return {'violations': viols, 'stats': stats}
    if base['forms'].get('primal', '').startswith('EXC'):
        stats['inconclusive']['baseline_do_math_raises:' + base['forms']['primal']] = 1
        return {'violations': viols, 'stats': stats}
    for nm, r in res.items():
        wc = [w_ for w_ in case['worlds'] if w_['name'] == nm][0]
        tag = ['world_' + nm, 'layout_' + wc.get('layout', 'C')]
        if not r['rng_ok']:
            viol('rng-consumed', 'global random state changed while building/formulating in world %s' % nm, tag)
        if not r['arrays_ok']:
            viol('user-array-modified', 'a user-supplied array (layout %s) changed at op %s in world %s'
                 % (wc.get('layout'), r.get('first_bad'), nm), tag)
        if nm == 'W0' or wc.get('dtype_only'):
            continue
        if r['log'] != base['log']:
            viol('outcome-differs', 'per-op outcomes differ between W0 and %s (layout %s, hashseed %s): first failures %s vs %s'
                 % (nm, wc.get('layout'), wc.get('hashseed', 0), base['log_raw'], r['log_raw']), tag)
            continue
        for fk in ('primal', 'dual'):
            stats['forms_compared'] += 1
            if r['forms'].get(fk) == base['forms'].get(fk):
                continue
            if wc.get('numeric'):
                # other memory layout of the user's arrays: numpy's own products are not layout-invariant to the last
                # bit, so structure must be identical and numbers equal to 1e-12 relative
                why = forms_differ(base['_raw'].get(fk), r.get('_raw', {}).get(fk))
                if why:
                    viol('form-differs-layout', '%s standard form differs between array layouts C and %s: %s'
                         % (fk, wc.get('layout'), why), tag)
                    break
                continue
            if wc.get('dual_first'):
                viol('form-depends-on-formulation-order', '%s standard form differs between "primal then dual" and "dual then primal" '
                     'on two builds of the same declaration' % fk, tag)
                break
            viol('form-differs', '%s standard form differs bit-wise between W0 and %s (hashseed %s, thread %s, gc %s, rng %s)'
                 % (fk, nm, wc.get('hashseed', 0), wc.get('thread', False), wc.get('gc'), wc.get('rng_seed')), tag)
            break

    # ---- (iv) repetition in this process ----------------------------------------------------------
    rs = interp.RS.get()
    w = W.World()
    arrs = Arrays('readonly')
    it = interp.Interp(rs, w, hooks={'const': arrs})
    with W.Bound(w, rs):
        for op in copy.deepcopy(ops):
            it.step(op)
        m = it.env.get('m')
        try:
            dp = form_digest(m.do_math())
        except Exception:
            dp = None
        if dp is not None:
            try:
                dd = form_digest(m.do_math(primal=False))
            except Exception:
                dd = None
            answers = {}
            for i, op in enumerate(case['reps']):
                rec = it.step(op)
                stats['events'] += 1
                stats['rep_steps'] += 1
                k = op['op'] + (':fault' if op.get('fault') else '')
                stats['probes'][k] = stats['probes'].get(k, 0) + 1
                if not rec['ok'] and not op.get('fault') and op['op'] in ('solve', 'soc_solve'):
                    # arbiter (as in M-PEER): the engine, called directly on a snapshot of the compiled program through the
                    # independent translation, raises as well -> the refusal is the engine's own (seen: ECOS cannot set up a
                    # program that has a row without variables), nothing RSOME repeated differently
                    try:
                        from machines import peer
                        from sim import direct
                        direct.DIRECT[peer.ENGINE_OF[op['solver']]](peer.snapshot(m.do_math()))
                        engine_raises = False
                    except Exception:
                        engine_raises = True
                    if engine_raises:
                        stats['inconclusive']['engine_itself_raises:' + op['solver']] = \
                            stats['inconclusive'].get('engine_itself_raises:' + op['solver'], 0) + 1
                        break
                if not rec['ok'] and not op.get('fault'):
                    viol('repeat-raises', 'repetition step %d (%s%s) raised %s after %s: %s'
                         % (i, op['op'], ' ' + op.get('solver', '') if 'solver' in op else '', rec['exc'],
                            [(o['op'], o.get('solver')) for o in case['reps'][:i]], rec.get('msg')),
                         ['rep_' + op['op']])
                    break
                try:
                    now_p = form_digest(m.do_math())
                    now_d = form_digest(m.do_math(primal=False)) if dd is not None else None
                except Exception as e:
                    viol('repeat-raises', 'do_math() raised %r after repetition step %d (%s)' % (e, i, op['op']), ['rep_' + op['op']])
                    break
                if now_p != dp:
                    viol('cached-primal-changed:' + op['op'], 'the cached primal form changed after repetition step %d: %s %s %s (history %s)'
                         % (i, op['op'], op.get('solver', ''), op.get('fault', ''), [(o['op'], o.get('solver')) for o in case['reps'][:i]]),
                         ['rep_' + op['op']] + (['fault'] if op.get('fault') else []))
                    break
                if dd is not None and now_d != dd:
                    viol('cached-dual-changed:' + op['op'], 'the dual form changed after repetition step %d: %s %s (history %s)'
                         % (i, op['op'], op.get('solver', ''), [(o['op'], o.get('solver')) for o in case['reps'][:i]]),
                         ['rep_' + op['op']])
                    break
                if op['op'] in ('solve', 'soc_solve') and rec['ok'] and not (op.get('fault') and op['fault']['kind'] != 'clock_step'):
                    out = rec['out']
                    key = (op['op'], op['solver'])
                    if out['sol'] == 'opt':
                        stats['solves_healthy'][op['solver']] = stats['solves_healthy'].get(op['solver'], 0) + 1
                        if key in answers and abs(answers[key] - out['obj']) > 1e-9 * (1 + abs(out['obj'])):
                            viol('answer-changed', '%s(%s) repeated without changes: %.12g then %.12g'
                                 % (op['op'], op['solver'], answers[key], out['obj']), ['rep_' + op['op']])
                            break
                        answers[key] = out['obj']
            if not arrs.intact():
                viol('user-array-modified', 'a read-only user array changed during formulate/solve repetitions', ['rep'])
    for kk, vv in w.fired.items():
        stats['faults_fired'][kk] = stats['faults_fired'].get(kk, 0) + vv
    stats['sim_seconds'] += w.simulated_seconds
    if stats['worlds_run'] >= 3 and stats['rep_steps'] >= 3:
        stats['nontrivial_sigs'].append(digest(ops))
    return {'violations': viols, 'stats': stats}


def sample_of(case):
    return {'src': case['src'], 'n_ops': len(case['ops']), 'ops_head': [o['op'] for o in case['ops']][:25],
            'worlds': [{k: v for k, v in w_.items()} for w_ in case['worlds']],
            'reps': [(o['op'], o.get('solver'), (o.get('fault') or {}).get('kind')) for o in case['reps']]}


def shrink_candidates(case, viol):
    reps = case['reps']
    for i in range(len(reps)):
        c = copy.deepcopy(case)
        del c['reps'][i]
        yield c
    if len(case['worlds']) > 2:
        for i in range(1, len(case['worlds'])):
            c = copy.deepcopy(case)
            del c['worlds'][i]
            yield c
    ops = case['ops']
    for i in reversed(range(len(ops))):
        if ops[i]['op'] in ('cons', 'forall', 'st', 'adapt', 'supp'):
            c = copy.deepcopy(case)
            cid = ops[i].get('id')
            del c['ops'][i]
            if ops[i]['op'] == 'cons':
                c['ops'] = [o for o in c['ops'] if not (o['op'] == 'forall' and o.get('id') == cid)]
                for o in c['ops']:
                    if o['op'] == 'st':
                        o['ids'] = [x for x in o['ids'] if x != cid]
            yield c
