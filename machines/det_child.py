"""Warm child interpreter for M-DET: reads {'ops', 'wc'} JSON lines, answers with run_world() digests.
Started with another PYTHONHASHSEED; fd 1 is kept clean for the protocol (engines write banners to fd 1)."""
import os
import sys
import json


def main():
    proto = os.fdopen(os.dup(1), 'w', buffering=1)
    dn = os.open(os.devnull, os.O_WRONLY)
    os.dup2(dn, 1)
    sys.stdout = open(os.devnull, 'w')
    sys.path.insert(0, os.path.dirname(os.path.dirname(os.path.abspath(__file__))))
    from machines import det
    for line in sys.stdin:
        line = line.strip()
        if not line:
            continue
        req = json.loads(line)
        try:
            out = det.run_world(req['ops'], req['wc'])
            out['hashseed'] = os.environ.get('PYTHONHASHSEED')
        except BaseException as e:
            out = {'error': repr(e)}
        proto.write(json.dumps(out) + '\n')
        proto.flush()


if __name__ == '__main__':
    main()
