"""M-PEER: solver engines as faulty peers (C11).

For one compiled program (LP / MILP with user bounds on binaries and integers / SOCP / exp-cone; feasible,
infeasible or unbounded by construction) every capable interface is called in PRNG order with random display/log
settings, and for each interface EVERY failure the engine's API documents is injected once through the
pass-through proxy (the enumerated part), interleaved with healthy calls.

Oracles
  healthy calls   all optima agree; each returned vector satisfies the pre-solve SNAPSHOT of the compiled program
                  (bounds, senses, SOC / exp-cone membership, integrality); objective value consistent with x
  failed calls    (injected failure, or genuine infeasible/unbounded instance) the model reports that no solution
                  is available: get() raises, variable read-back raises, optimal() is False; if the engine raised,
                  the exception may propagate and the model must not claim a NEW solution
  recovery        the first healthy call after a failure is correct again
  real-engine scenario: Gurobi with params={'SolutionLimit': 1} (no stub) stops at status 10
"""
import copy
import random

import numpy as np

from sim import interp, gen, direct
from sim import world as W
from sim.runner import subseed, digest

NAME = 'M-PEER'
PROPS = ['C11']
LEVEL = 'fault_enumeration'
RULE = ('case = one generated program (class LP/MILP/SOCP/MISOCP/EXP x variant feasible/infeasible/unbounded) x every '
        'capable interface x every documented failure return of that engine (table FAULTS, enumerated completely per '
        'interface) + healthy calls in between; distinct = distinct (program digest); non-trivial = at least two '
        'interfaces returned healthy answers that were cross-checked or >=1 injected fault fired')
ASSUMPTIONS = [
    'healthy engines return correct optima / certificates (their agreement is the cross-check)',
    'the stubbed failure returns reproduce what the engine APIs document (status codes, missing attributes)',
    'CyLP, CPLEX, Mosek, COPT are not installed: clp/cpx/msk/cpt interfaces and LMI/SDP programs are not exercised',
    'ECOS_BB (eco_solver on integer programs) runs only on the exact-weight knapsack scenario, behind a wall-clock cap of 20000 '
    'nodes in the proxy (with mi_max_iters=1e8 it can cycle for hours); a run ended by the cap is inconclusive',
]
COMPONENTS = {
    'real': ['rsome/* from the tree under test', 'HiGHS (scipy), ECOS, GLOP/SCIP (OR-Tools), Gurobi: real engines on every call'],
    'stub': ['failure returns of the engines (status / exception) via pass-through proxies', 'clock', 'stdout sink'],
}

GRB_NOINC = [1, 3, 4, 5, 6, 7, 8, 9, 10, 11, 12, 13, 14, 15, 16, 17]
GRB_INC = [7, 8, 9, 10, 11, 13, 15, 16, 17]

FAULTS = {
    'scipy': [{'kind': 'status', 'status': s, 'x': x} for s in (1, 2, 3, 4) for x in ('none', 'stale', 'garbage')] +
             [{'kind': 'raise', 'exc': e} for e in ('MemoryError', 'RuntimeError', 'ValueError')],
    'ecos': [{'kind': 'status', 'status': s} for s in (1, 2, -1, -2, -3, -4, -7, 11, 12)] +
            [{'kind': 'status', 'status': -2, 'x': 'garbage'}] +
            [{'kind': 'raise', 'exc': e} for e in ('MemoryError', 'RuntimeError')],
    'ortools': [{'kind': 'status', 'status': s} for s in (1, 2, 3, 4, 5, 6)] + [{'kind': 'none_solver'}] +
               [{'kind': 'raise', 'exc': 'RuntimeError'}],
    'gurobi': [{'kind': 'status', 'status': s} for s in GRB_NOINC] +
              [{'kind': 'status', 'status': s, 'incumbent': True} for s in GRB_INC] +
              [{'kind': 'raise', 'exc': e} for e in ('GurobiError', 'MemoryError', 'KeyboardInterrupt')],
}
ENGINE_OF = {'def': 'scipy', 'lpg': 'scipy', 'ort': 'ortools', 'grb': 'gurobi', 'eco': 'ecos'}


def capable(cls):
    return {'LP': ['def', 'lpg', 'ort', 'grb', 'eco'], 'MILP': ['def', 'lpg', 'ort', 'grb'],
            'SOCP': ['eco', 'grb'], 'MISOCP': ['grb'], 'EXP': ['eco']}[cls]


# --------------------------------------------------------------------------------------------------
# program generator
# --------------------------------------------------------------------------------------------------

def gen_program(rng, cfg):
    cls = rng.choice(cfg.get('classes', ['LP', 'LP', 'MILP', 'MILP', 'MILP', 'SOCP', 'SOCP', 'MISOCP', 'EXP']))
    variant = rng.choice(['feasible'] * 6 + ['infeasible', 'unbounded'])
    n = rng.randint(2, 5)
    ops = [{'op': 'model', 'id': 'm', 'kind': 'ro'}, {'op': 'dvar', 'id': 'x', 'm': 'm', 'shape': [n]}]
    x0 = [gen.r2(rng, -2, 2) for _ in range(n)]
    val = {'x': x0}
    cons = []
    lbx = [round(v - gen.r2(rng, 0.5, 3), 2) for v in x0]
    ubx = [round(v + gen.r2(rng, 0.5, 3), 2) for v in x0]
    if cls in ('LP', 'SOCP', 'EXP') and rng.random() < cfg.get('p_bounds_as_rows', 0.3):
        # every restriction is a row: the compiled program has no finite variable bound at all
        cons.append(['>=', ['*', ['c', 1.0], ['v', 'x']], ['c', lbx]])
        cons.append(['<=', ['*', ['c', 1.0], ['v', 'x']], ['c', ubx]])
    else:
        cons.append(['>=', ['v', 'x'], ['c', lbx]])
        cons.append(['<=', ['v', 'x'], ['c', ubx]])
    groups = [('x', n)]
    if cls in ('MILP', 'MISOCP'):
        ki = rng.randint(0, 3)
        kb = rng.randint(0 if ki else 1, 3)
        if ki:
            ops.append({'op': 'dvar', 'id': 'iv', 'm': 'm', 'shape': [ki], 'vtype': 'I'})
            i0 = [float(rng.randint(-3, 3)) for _ in range(ki)]
            val['iv'] = i0
            cons.append(['>=', ['v', 'iv'], ['c', [v - rng.choice([0.0, 0.5, 1.3, 2.0]) for v in i0]]])
            cons.append(['<=', ['v', 'iv'], ['c', [v + rng.choice([0.0, 0.7, 1.5, 2.0]) for v in i0]]])
            groups.append(('iv', ki))
        if kb:
            ops.append({'op': 'dvar', 'id': 'bv', 'm': 'm', 'shape': [kb], 'vtype': 'B'})
            b0 = [float(rng.randint(0, 1)) for _ in range(kb)]
            val['bv'] = b0
            for j in range(kb):
                # user bounds on binaries: excluding 0 or 1, fractional, redundant, or none
                how = rng.randrange(6)
                bj = ['i', ['v', 'bv'], j]
                if how == 0:
                    cons.append(['>=', bj, ['c', 1.0]] if b0[j] == 1 else ['<=', bj, ['c', 0.0]])
                elif how == 1:
                    cons.append(['>=', bj, ['c', 0.5]] if b0[j] == 1 else ['<=', bj, ['c', 0.5]])
                elif how == 2:
                    cons.append(['>=', bj, ['c', -1.0]])
                    cons.append(['<=', bj, ['c', 2.0]])
                elif how == 3:
                    cons.append(['==', bj, ['c', b0[j]]])
            groups.append(('bv', kb))

    def lin(coefs):
        e = None
        for (nm, k), a in zip(groups, coefs):
            t = ['@', ['c', a], ['v', nm]]
            e = t if e is None else ['+', e, t]
        return e

    def linval(coefs):
        return sum(float(np.dot(a, val[nm])) for (nm, k), a in zip(groups, coefs))

    def rcoef(density=0.8):
        return [[gen.nz2(rng, -2, 2) if rng.random() < density else 0.0 for _ in range(k)] for nm, k in groups]

    only_eq = cls in ('LP', 'SOCP') and rng.random() < 0.12       # no inequality rows at all (bounds aside)
    for _ in range(0 if only_eq else rng.randint(1, 4)):
        a = rcoef()
        cons.append(['<=', lin(a), ['c', round(linval(a) + gen.r2(rng, 0.0, 2.0), 4)]])
    if only_eq or rng.random() < 0.4:
        a = [[gen.nz2(rng, -2, 2) for _ in range(n)]]
        cons.append(['==', ['@', ['c', a[0]], ['v', 'x']], ['c', round(float(np.dot(a[0], x0)), 6)]])
    if cls in ('SOCP', 'MISOCP') or (cls == 'EXP' and rng.random() < 0.5):
        for _ in range(rng.randint(1, 2)):
            how = rng.randrange(3)
            if how == 0:
                k = rng.randint(1, n)
                B = [[gen.r2(rng, -1, 1) for _ in range(n)] for _ in range(k)]
                dvec = [gen.r2(rng, -1, 1) for _ in range(k)]
                lhs = float(np.linalg.norm(np.dot(B, x0) + dvec))
                cons.append(['<=', ['norm', ['+', ['@', ['c', B], ['v', 'x']], ['c', dvec]], 2],
                             ['c', round(lhs + gen.r2(rng, 0.1, 1.5), 4)]])
            elif how == 1:
                cons.append(['<=', ['f', 'sumsqr', ['v', 'x']], ['c', round(float(np.dot(x0, x0)) + gen.r2(rng, 0.1, 2), 4)]])
            else:
                cons.append(['<=', ['f', 'square', ['v', 'x']],
                             ['c', [round(v * v + gen.r2(rng, 0.1, 2), 4) for v in x0]]])
    if cls == 'EXP':
        for _ in range(rng.randint(1, 2)):
            how = rng.randrange(3)
            a = [gen.r2(rng, -0.5, 0.5) for _ in range(n)]
            if how == 0:
                lhs = float(np.exp(np.dot(a, x0)))
                cons.append(['<=', ['f', 'exp', ['@', ['c', a], ['v', 'x']]], ['c', round(lhs + gen.r2(rng, 0.1, 1), 4)]])
            elif how == 1:
                # log(a.x + e) >= rhs with a.x0 + e = 2
                e = 2.0 - float(np.dot(a, x0))
                cons.append(['>=', ['f', 'log', ['+', ['@', ['c', a], ['v', 'x']], ['c', round(e, 6)]]],
                             ['c', round(float(np.log(2.0)) - gen.r2(rng, 0.1, 1), 4)]])
            else:
                e = [round(3.0 - v, 6) for v in x0]      # x + e = 3 > 0
                ent = float(-np.sum(3.0 * np.log(3.0)) * 1.0)
                cons.append(['>=', ['f', 'entropy', ['+', ['v', 'x'], ['c', e]]],
                             ['c', round(-n * 3.0 * float(np.log(3.0)) - gen.r2(rng, 0.1, 1), 4)]])
    x0e = ['i', ['v', 'x'], 0]
    if variant == 'infeasible':
        if rng.random() < 0.35:
            # infeasible through a row WITHOUT variables (its coefficients cancel): 0 <= -1 or 0 == 0.5
            cons.append(rng.choice([['<=', ['-', x0e, x0e], ['c', -1.0]], ['==', ['-', x0e, x0e], ['c', 0.5]],
                                    ['>=', ['*', ['c', 0.0], x0e], ['c', 2.0]]]))
        else:
            cons.append(['>=', x0e, ['c', round(ubx[0] + 1.0, 2)]])
    elif rng.random() < 0.15:
        # a harmless row without variables: 0 <= 1 or 0 == 0
        cons.append(rng.choice([['<=', ['-', x0e, x0e], ['c', 1.0]], ['==', ['-', x0e, x0e], ['c', 0.0]]]))
    cobj = rcoef(1.0)
    obj = lin(cobj)
    sense = rng.choice(['min', 'max'])
    if variant == 'unbounded':
        ops.append({'op': 'dvar', 'id': 'u', 'm': 'm'})
        cons.append(['>=', ['v', 'u'], ['c', 0.0]])
        obj = ['+', obj, ['*', ['c', -1.0 if sense == 'min' else 1.0], ['v', 'u']]]
    for i, c in enumerate(cons):
        ops.append({'op': 'cons', 'id': 'k%d' % i, 'e': c})
    order = list(range(len(cons)))
    rng.shuffle(order)
    ops.append({'op': 'st', 'm': 'm', 'ids': ['k%d' % i for i in order]})
    ops.append({'op': 'obj', 'm': 'm', 'how': sense, 'e': obj})
    return {'cls': cls, 'variant': variant, 'ops': ops, 'vars': [g[0] for g in groups], 'sense': sense}


def gen_calls(rng, prog, cfg):
    calls = []
    ifaces = capable(prog['cls'])
    rng.shuffle(ifaces)
    for sv in ifaces:
        eng = ENGINE_OF[sv]
        calls.append({'solver': sv, 'display': rng.random() < 0.4, 'log': rng.random() < 0.3})
        fl = [dict(f) for f in FAULTS[eng]]
        rng.shuffle(fl)
        for f in fl:
            calls.append({'solver': sv, 'display': rng.random() < 0.3, 'log': rng.random() < 0.2, 'fault': f,
                          'soc': rng.random() < 0.25})
            if rng.random() < 0.25:
                calls.append({'solver': sv, 'display': rng.random() < 0.3})
        if sv == 'grb' and rng.random() < 0.7:
            # engine parameters belong to the call they are passed to: the next parameter-free call must be unaffected
            calls.append({'solver': 'grb', 'display': rng.random() < 0.3, 'log': rng.random() < 0.3, 'param_call': True,
                          'params': rng.choice([{'MIPGap': 0.5}, {'SolutionLimit': 1}, {'TimeLimit': 0.0}, {'IterationLimit': 0},
                                                {'NodeLimit': 0, 'Heuristics': 0}, {'Presolve': 0}, {'Method': 0}])})
            calls.append({'solver': 'grb', 'display': False})
        # environment faults on an otherwise healthy call
        if rng.random() < 0.5:
            calls.append({'solver': sv, 'display': True, 'fault': {'kind': 'stdout_broken', 'nth': rng.randint(1, 3)}})
        if rng.random() < 0.5:
            calls.append({'solver': sv, 'display': rng.random() < 0.5,
                          'fault': {'kind': 'clock_step', 'steps': [rng.choice([-3600.0, 86400.0, -2e9])]}})
        if eng == 'scipy' and prog['cls'] == 'MILP' and rng.random() < 0.7:
            # buggify: the engine answers within its integrality tolerance only (legal), the call is otherwise healthy
            calls.append({'solver': sv, 'display': False, 'fault': {'kind': 'int_noise', 'eps': rng.choice([4e-10, 3e-9, 5e-8])}})
        calls.append({'solver': sv, 'display': False})
        if rng.random() < 0.5:
            calls.append({'solver': sv, 'display': rng.random() < 0.3, 'soc': True, 'soc_healthy': True})
    return calls


def gen_case(seed, cfg):
    rng = random.Random(seed)
    if rng.random() < cfg.get('p_real_grb', 0.06):
        # real-engine scenario, no stub: Gurobi stopped by SolutionLimit=1
        n = rng.randint(18, 30)
        v = [float(rng.randint(10, 60)) for _ in range(n)]
        wt = [float(rng.randint(5, 40)) for _ in range(n)]
        ops = [{'op': 'model', 'id': 'm', 'kind': 'ro'}, {'op': 'dvar', 'id': 'b', 'm': 'm', 'shape': [n], 'vtype': 'B'},
               {'op': 'cons', 'id': 'k0', 'e': ['<=', ['@', ['c', wt], ['v', 'b']], ['c', round(sum(wt) / 3.0, 1)]]},
               {'op': 'st', 'm': 'm', 'ids': ['k0']},
               {'op': 'obj', 'm': 'm', 'how': 'max', 'e': ['@', ['c', v], ['v', 'b']]}]
        prog = {'cls': 'MILP', 'variant': 'feasible', 'ops': ops, 'vars': ['b'], 'sense': 'max',
                'variant_real': 'grb_solution_limit'}
        calls = [{'solver': 'grb', 'display': False, 'params': {'SolutionLimit': 1}, 'real_limit': True},
                 {'solver': 'grb', 'display': False}, {'solver': rng.choice(['def', 'ort']), 'display': False}]
        return {'prog': prog, 'calls': calls, 'seed': seed}
    if rng.random() < cfg.get('p_ecos_bb', 0.05):
        # real-engine scenario, no stub: a pure-binary MILP with one equality row (exact-weight knapsack, integer costs) on
        # which a plain branch-and-bound (ECOS_BB) needs hundreds to thousands of nodes while HiGHS / SCIP / Gurobi are
        # instant.  Whatever an interface reports as the solution must be THE optimum (values differ by >= 1).
        n = rng.randint(18, 22)
        wt = [float(rng.randint(50, 1000)) for _ in range(n)]
        cost = [float(rng.randint(1, 30)) for _ in range(n)]
        target = float(sum(w_ for w_ in wt if rng.random() < 0.5))
        ops = [{'op': 'model', 'id': 'm', 'kind': 'ro'}, {'op': 'dvar', 'id': 'b', 'm': 'm', 'shape': [n], 'vtype': 'B'},
               {'op': 'cons', 'id': 'k0', 'e': ['==', ['@', ['c', wt], ['v', 'b']], ['c', target]]},
               {'op': 'st', 'm': 'm', 'ids': ['k0']},
               {'op': 'obj', 'm': 'm', 'how': 'min', 'e': ['@', ['c', cost], ['v', 'b']]}]
        prog = {'cls': 'MILP', 'variant': 'feasible', 'ops': ops, 'vars': ['b'], 'sense': 'min', 'variant_real': 'ecos_bb'}
        others = ['def', 'ort', 'grb']
        rng.shuffle(others)
        calls = [{'solver': others[0], 'display': False}, {'solver': 'eco', 'display': False}, {'solver': others[1], 'display': False}]
        if rng.random() < 0.5:
            calls = [calls[1], calls[0], calls[2]]
        if rng.random() < 0.5:
            calls.append({'solver': 'eco', 'display': False, 'fault': {'kind': 'status', 'status': rng.choice([1, -2, 11])}})
            calls.append({'solver': 'eco', 'display': False})
        return {'prog': prog, 'calls': calls, 'seed': seed}
    prog = gen_program(rng, cfg)
    return {'prog': prog, 'calls': gen_calls(rng, prog, cfg), 'seed': seed}


# --------------------------------------------------------------------------------------------------
# oracles
# --------------------------------------------------------------------------------------------------

def snapshot(f):
    s = {'A': f.linear.copy().tocsr(), 'b': np.array(f.const, float).copy(), 'sense': np.array(f.sense).copy(),
         'vtype': np.array(f.vtype).copy(), 'ub': np.array(f.ub, float).copy(), 'lb': np.array(f.lb, float).copy(),
         'obj': np.array(f.obj, float).copy(), 'qmat': [list(map(int, q)) for q in getattr(f, 'qmat', [])],
         'xmat': [list(map(int, q)) for q in getattr(f, 'xmat', [])]}
    return s


def snap_digest(s):
    A = s['A'].copy()
    A.sort_indices()
    return digest([A.indptr.tolist(), A.indices.tolist(), A.data.round(12).tolist(), s['b'].tolist(), s['sense'].tolist(),
                   s['vtype'].tolist(), s['ub'].tolist(), s['lb'].tolist(), s['obj'].tolist(), s['qmat'], s['xmat']])


def feasible(s, x, tol):
    x = np.asarray(x, float)
    if x.shape[0] != s['A'].shape[1]:
        return 'solution vector has %d entries, program has %d columns' % (x.shape[0], s['A'].shape[1])
    scale = 1.0 + float(np.max(np.abs(x)))
    r = s['A'] @ x - s['b']
    for i in range(len(r)):
        if s['sense'][i] == 1:
            if abs(r[i]) > tol * scale * 10:
                return 'equality row %d violated by %.3g' % (i, r[i])
        elif r[i] > tol * scale * 10:
            return 'inequality row %d violated by %.3g' % (i, r[i])
    for j in range(len(x)):
        lb, ub = s['lb'][j], s['ub'][j]
        if s['vtype'][j] == 'B':
            lb, ub = max(lb, 0.0), min(ub, 1.0)
        if x[j] < lb - tol * scale or x[j] > ub + tol * scale:
            return 'column %d = %.9g outside its bounds [%g, %g] (type %s)' % (j, x[j], lb, ub, s['vtype'][j])
        if s['vtype'][j] != 'C' and abs(x[j] - round(x[j])) > 1e-5:
            return 'column %d = %.9g is not integral (type %s)' % (j, x[j], s['vtype'][j])
    for q in s['qmat']:
        if np.linalg.norm(x[q[1:]]) > x[q[0]] + tol * scale * 10:
            return 'second-order cone %s violated: ||.|| = %.9g > %.9g' % (q, np.linalg.norm(x[q[1:]]), x[q[0]])
    for e in s['xmat']:
        # ExpConstr(x, y, z): z * exp(x / z) <= y  with columns (e0, e1, e2) = (x, y, z)  (ECOS ordering)
        a, y_, z_ = x[e[0]], x[e[1]], x[e[2]]
        if z_ > 1e-9:
            if z_ * np.exp(a / z_) > y_ + tol * scale * 50:
                return 'exponential cone %s violated: %.9g*exp(%.9g/%.9g) > %.9g' % (e, z_, a, z_, y_)
        elif not (a <= tol * scale * 10 and y_ >= -tol * scale * 10 and abs(z_) <= 1e-6):
            return 'exponential cone %s violated at boundary (%.3g, %.3g, %.3g)' % (e, a, y_, z_)
    return None


TOLS = {'LP': 1e-6, 'MILP': 1e-6, 'SOCP': 2e-4, 'MISOCP': 2e-4, 'EXP': 5e-4}


def claims_solution(it, prog):
    """what the model says after a call: ('none'|'nosol'|'opt', objective or None, readable variables?)"""
    st = it.status('m')
    readable = []
    for nm in prog['vars']:
        try:
            it.env[nm].get()
            readable.append(nm)
        except Exception:
            pass
    try:
        opt = bool(it.env['m'].optimal())
    except Exception:
        opt = None
    try:
        g = it.env['m'].get()
        readable.append('model.get()=%r' % (g,))     # returning anything (even NaN) instead of raising
    except Exception:
        pass
    return st, readable, opt


def check_case(case, props):
    prog, calls = case['prog'], case['calls']
    cls = prog['cls']
    tol = TOLS[cls]
    viols = []
    stats = {'runs': 1, 'programs': {cls + '/' + prog['variant']: 1}, 'events': 0, 'engine_calls': 0,
             'faults_fired': {}, 'faults_injected': {}, 'healthy': {}, 'inconclusive': {}, 'sim_seconds': 0.0,
             'cross_checks': 0, 'feasibility_checks': 0, 'failure_checks': 0, 'recovery_checks': 0,
             'nontrivial_sigs': [], 'prog_sigs': [], 'probes': {}}

    def viol(oracle, detail, tags=(), exc=None):
        # the signature separates engines and the incumbent case, so that a known finding for one engine can never
        # absorb a new violation of another
        key = '+'.join(t for t in sorted(tags) if t in ('scipy', 'ecos', 'ortools', 'gurobi', 'incumbent_at_nonoptimal_status',
                                                        'genuine_infeasible', 'genuine_unbounded', 'fault_raise', 'fault_none_solver'))
        viols.append({'prop': 'C11', 'oracle': oracle, 'sig': 'C11|%s|%s|%s' % (oracle, key, exc or ''),
                      'detail': detail, 'tags': sorted(tags), 'exc': exc or ''})

    def inconc(k):
        stats['inconclusive'][k] = stats['inconclusive'].get(k, 0) + 1

    rs = interp.RS.get()
    w = W.World()
    it = interp.Interp(rs, w)
    with W.Bound(w, rs):
        for op in prog['ops']:
            rec = it.step(op)
            if not rec['ok']:
                inconc('program_build_raises:%s' % ':'.join(rec['exc']))
                return {'violations': viols, 'stats': stats}
        m = it.env['m']
        try:
            f = m.do_math()
        except Exception as e:
            inconc('do_math_raises:%s' % type(e).__name__)
            return {'violations': viols, 'stats': stats}
        snap = snapshot(f)
        sd = snap_digest(snap)
        stats['prog_sigs'].append(sd)
        best = {}          # interface -> objective of healthy optimal calls
        after_failure = False
        nfired = 0
        for ci, call in enumerate(calls):
            sv = call['solver']
            eng = ENGINE_OF[sv]
            fault = call.get('fault')
            engine_fault = fault and fault['kind'] in ('status', 'raise', 'none_solver')
            sol_before = getattr(m, 'solution', None)
            op = {'op': 'soc_solve' if call.get('soc') else 'solve', 'm': 'm', 'solver': sv, 'display': call.get('display', False)}
            for k in ('log', 'params', 'fault'):
                if k in call:
                    op[k] = call[k]
            fired_before = dict(w.fired)
            rec = it.step(op)
            stats['events'] += 1
            stats['engine_calls'] += 1
            fired_now = {k: v - fired_before.get(k, 0) for k, v in w.fired.items() if v != fired_before.get(k, 0)}
            st, readable, opt = claims_solution(it, prog)
            sol_after = getattr(m, 'solution', None)
            ftag = None
            if fault:
                ftag = '%s:%s' % (eng, fault['kind'] + (str(fault.get('status', fault.get('exc', ''))) if engine_fault else ''))
                if fault.get('incumbent'):
                    ftag += ':incumbent'
                stats['faults_injected'][ftag] = stats['faults_injected'].get(ftag, 0) + 1
            if engine_fault:
                if not fired_now:
                    inconc('fault_not_fired:' + ftag)
                    continue
                nfired += 1
                stats['failure_checks'] += 1
                tags = ['fault_' + fault['kind'], eng]
                if fault.get('incumbent'):
                    tags.append('incumbent_at_nonoptimal_status')
                if not rec['ok']:
                    # the exception propagated: fine, but no NEW solution may be claimed
                    if sol_after is not sol_before and st['sol'] == 'opt':
                        viol('failure-claims-solution', '%s: engine failure %s raised %s yet the model holds a new solution '
                             'with objective %r' % (sv, fault, rec['exc'], st.get('obj')), tags)
                        break
                else:
                    if st['sol'] == 'opt' or readable or opt:
                        viol('failure-claims-solution', '%s: injected engine failure %s, but the model reports a solution: '
                             'objective %r, readable variables %s, optimal()=%s'
                             % (sv, {k: v for k, v in fault.items()}, st.get('obj'), readable, opt), tags)
                after_failure = True
                continue
            if call.get('param_call'):
                # the parameters may legitimately stop the engine early; nothing is judged on this call itself
                stats['probes']['grb_param_call'] = stats['probes'].get('grb_param_call', 0) + 1
                after_failure = True
                continue
            if call.get('real_limit'):
                # real engine stopped by SolutionLimit: Status 10 means no optimum was reached
                stats['probes']['real_grb_solution_limit'] = 1
                status = str(st.get('status'))
                if rec['ok'] and status == '10':
                    stats['failure_checks'] += 1
                    stats['probes']['real_grb_status10'] = 1
                    if st['sol'] == 'opt' or readable or opt:
                        viol('failure-claims-solution', 'grb (REAL engine, params SolutionLimit=1) stopped at Status 10 '
                             '(SOLUTION_LIMIT) but the model reports a solution: objective %r, optimal()=%s'
                             % (st.get('obj'), opt), ['incumbent_at_nonoptimal_status', 'gurobi', 'real_engine'])
                        break
                continue
            # ---- healthy engine call (possibly with an environment fault around it) ---------------
            if not rec['ok']:
                if fault and fault['kind'] in ('stdout_broken',) and fired_now:
                    # print failed: exception may propagate; no new solution may be claimed out of thin air
                    after_failure = True
                    continue
                # arbiter: the engine called directly on the snapshot (independent translation) raises as well -> the refusal
                # is the engine's own (seen: ECOS cannot set up a program that has a row without variables)
                try:
                    direct.DIRECT[eng](snap)
                    engine_raises = False
                except Exception:
                    engine_raises = True
                if engine_raises and (not call.get('soc') or cls != 'EXP'):
                    inconc('engine_itself_raises:%s' % eng)
                    continue
                viol('healthy-call-raises', '%s raised %s on a healthy call: %s' % (sv, rec['exc'], rec.get('msg')),
                     [eng], exc=':'.join(rec['exc']))
                break
            if sv == 'eco' and cls in ('MILP', 'MISOCP'):
                stats['probes']['ecos_bb_call'] = stats['probes'].get('ecos_bb_call', 0) + 1
                if w.ecos_bb_capped:
                    # the proxy's wall-clock cap ended the branch-and-bound: the answer is no optimum, nothing to judge
                    inconc('ecos_bb_cap_hit')
                    continue
            stats['healthy'][sv] = stats['healthy'].get(sv, 0) + 1
            variant = prog['variant']
            if variant != 'feasible':
                stats['failure_checks'] += 1
                if st['sol'] == 'opt' or readable or opt:
                    # arbiter: if the engine itself, called directly on the snapshot through the independent translation,
                    # also claims an optimum, the interface passed on what its engine said (seen: SCIP under OR-Tools returns
                    # OPTIMAL with a value of 1e6 on an unbounded MILP whose ray is a free continuous column) - inconclusive
                    try:
                        dx = direct.DIRECT[eng](snap) if not call.get('soc') else None
                    except Exception:
                        dx = None
                    if dx is not None:
                        inconc('engine_itself_claims_optimum_on_%s:%s' % (variant, eng))
                        continue
                    viol('failure-claims-solution', '%s on a %s instance reports a solution: objective %r, readable %s, '
                         'optimal()=%s, status %s' % (sv, variant, st.get('obj'), readable, opt, st.get('status')),
                         ['genuine_' + variant, eng])
                    break
                continue
            if st['sol'] != 'opt':
                inconc('healthy_not_optimal:%s:%s' % (sv, st.get('status')))
                continue
            if opt is not True or set(r_ for r_ in readable if not r_.startswith('model.get()')) != set(prog['vars']):
                viol('optimal-not-readable', '%s returned optimal but optimal()=%s, readable variables %s of %s'
                     % (sv, opt, readable, prog['vars']), [eng])
                break
            if call.get('soc'):
                # soc_solve works on an expanded program (extra columns); exp cones are approximated, so only programs
                # without exp cones are comparable; the failure semantics above apply to it in full
                stats['probes']['healthy_soc_solve'] = stats['probes'].get('healthy_soc_solve', 0) + 1
                if cls != 'EXP' and sv in best:
                    # compared with the SAME interface's solve(): an engine's own quirk (e.g. the HiGHS presolve defect)
                    # then shows on both sides and cancels
                    o2 = best[sv]
                    if abs(o2 - st['obj']) > max(tol * 10, 3e-4 if cls in ('MILP', 'MISOCP') else 0) * (1 + abs(o2)):
                        viol('soc-solve-disagrees', '%s: soc_solve gives %.9g, solve gave %.9g on a program without exp cones'
                             % (sv, st['obj'], o2), [eng])
                        break
                if after_failure:
                    stats['recovery_checks'] += 1
                    after_failure = False
                continue
            # feasibility w.r.t. the snapshot of the compiled program
            stats['feasibility_checks'] += 1
            x = np.asarray(sol_after.x, float)
            why = feasible(snap, x, tol)
            if why:
                viol('infeasible-for-snapshot', '%s: returned vector violates the pre-solve snapshot of the compiled '
                     'program: %s' % (sv, why), [eng])
                break
            ov = float(snap['obj'] @ x[:len(snap['obj'])])
            if abs(ov - float(sol_after.objval)) > tol * 10 * (1 + abs(ov)):
                viol('objective-inconsistent', '%s: objval %.9g but obj @ x = %.9g' % (sv, sol_after.objval, ov), [eng])
                break
            # model.get() is the user's objective (user sense) at the values read back through the variables
            try:
                from sim.astx import evalnum
                vals = {nm: np.asarray(it.env[nm].get(), float) for nm in prog['vars']}
                if prog['variant'] == 'unbounded':
                    vals['u'] = np.asarray(it.env['u'].get(), float)
                oast = [o for o in prog['ops'] if o['op'] == 'obj'][0]['e']
                uo = float(np.asarray(evalnum(oast, vals)).reshape(-1)[0])
                if abs(uo - st['obj']) > tol * 10 * (1 + abs(uo)):
                    viol('get-vs-readback', '%s: model.get() = %.9g but the objective expression at the values returned by the '
                         'variables is %.9g (sense %s)' % (sv, st['obj'], uo, prog['sense']), [eng])
                    break
            except KeyError:
                pass
            if after_failure:
                stats['recovery_checks'] += 1
                after_failure = False
            xtol = 3e-4 if cls in ('MILP', 'MISOCP') else tol * 10      # engines' default relative MIP gap is 1e-4
            disagreed = False
            for sv2, o2 in list(best.items()):
                stats['cross_checks'] += 1
                if abs(o2 - st['obj']) > xtol * (1 + abs(o2)):
                    disagreed = True
                    # arbiter: the same engines called directly on the snapshot (independent translation).  An interface
                    # is at fault only if it deviates from its own engine called directly on the same program.
                    guilty = []
                    for svx, ox in ((sv, st['obj']), (sv2, o2)):
                        try:
                            dx = direct.DIRECT[ENGINE_OF[svx]](snap)
                        except Exception:
                            dx = None
                        if dx is not None and abs(dx * m.sign - ox) > xtol * (1 + abs(ox)):
                            guilty.append('%s via RSOME %.9g, its engine called directly on the snapshot %.9g' % (svx, ox, dx * m.sign))
                    if guilty:
                        viol('interfaces-disagree', 'same program (class %s): %s gives %.9g, %s gives %.9g; %s'
                             % (cls, sv2, o2, sv, st['obj'], '; '.join(guilty)), [eng, ENGINE_OF[sv2]])
                    else:
                        inconc('engines_disagree_among_themselves:%s/%s' % (ENGINE_OF[sv2], eng))
                    break
            if not disagreed:
                best[sv] = st['obj']
        # the compiled program handed to the interfaces must still be the snapshot
        try:
            f2 = m.do_math()
            if snap_digest(snapshot(f2)) != sd:
                viol('program-edited', 'after the calls %s the cached compiled program differs from its pre-solve snapshot'
                     % ([c['solver'] for c in calls[:6]],), ['program_edited'])
        except Exception as e:
            viol('program-edited', 'do_math() raises after the calls: %r' % (e,), exc=type(e).__name__)
    for kk, vv in w.fired.items():
        stats['faults_fired'][kk] = stats['faults_fired'].get(kk, 0) + vv
    stats['sim_seconds'] += w.simulated_seconds
    if len(best) >= 2 or nfired:
        stats['nontrivial_sigs'].append(sd)
    return {'violations': viols, 'stats': stats}


def sample_of(case):
    return {'class': case['prog']['cls'], 'variant': case['prog']['variant'],
            'program_ops': [op for op in case['prog']['ops'] if op['op'] in ('dvar', 'obj')][:6],
            'calls': [(c['solver'], (c.get('fault') or {}).get('kind'), (c.get('fault') or {}).get('status')) for c in case['calls']][:40]}


def shrink_candidates(case, viol):
    calls = case['calls']
    for chunk in (16, 8, 4, 2, 1):
        for st in range(0, len(calls), chunk):
            if len(calls) - chunk < 1:
                continue
            c = copy.deepcopy(case)
            del c['calls'][st:st + chunk]
            yield c
    ops = case['prog']['ops']
    for i, op in enumerate(ops):
        if op['op'] == 'cons':
            c = copy.deepcopy(case)
            cid = op['id']
            c['prog']['ops'] = [o for o in c['prog']['ops'] if not (o['op'] == 'cons' and o['id'] == cid)]
            for o in c['prog']['ops']:
                if o['op'] == 'st':
                    o['ids'] = [x for x in o['ids'] if x != cid]
            yield c
