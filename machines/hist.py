"""M-HIST: build-history simulator for C09.

One declared model D (a DAG of API steps) is executed under several seeded schedules: random linear
extensions of the DAG with environment events (formulate primal/dual, solve with any capable engine - possibly
with an injected engine fault -, soc_solve, export, define-and-discard sets/expressions, gc) between the steps.
Oracles:
  L1  applied set == attached set: closed-form optimum/solution of separable probe models (sim/ref.py)
  L2  every schedule of D ends in the same result as the from-scratch canonical build
  L3  every intermediate healthy solve equals a from-scratch build of the declared-so-far prefix
A declaration step that raises under a schedule while the canonical order builds fine is a violation as well.
"""
import copy
import random

import numpy as np

from sim import gen, ref, interp, direct
from sim.runner import subseed, digest

NAME = 'M-HIST'
PROPS = ['C09']
LEVEL = 'exploration'
RULE = ('case = one declared model (ro-sep / ro-gen / dro-sep / dro-gen family, seeded sizes, sets, coefficients) '
        'executed under 3-5 seeded schedules (linear extensions of its step DAG + environment events + engine '
        'faults); distinct = distinct (family, step order modulo names, event kinds) signature; non-trivial = the '
        'schedule differs from the canonical order, contained >=1 healthy intermediate or final solve and hit >=1 '
        'hazard probe')
ASSUMPTIONS = [
    'closed-form support functions in sim/ref.py (validated against isolated single-set models by selftest)',
    'solver engines are trusted to return correct optima on healthy calls; soft failures are inconclusive',
    'schedules interleave at API-call granularity (no pre-emption inside RSOME calls)',
]
COMPONENTS = {
    'real': ['rsome/* from the tree under test', 'numpy/scipy/pandas', 'HiGHS, ECOS, GLOP/SCIP, Gurobi (behind pass-through proxies)'],
    'stub': ['clock (virtual)', 'stdout sink', 'in-memory file system', 'engine fault plan'],
}

TOL = {'lp': 1e-6, 'soc': 2e-4, 'exp': 5e-4}


def solver_pool(cone, ints):
    if cone == 'lp':
        return ['def', 'ort', 'grb'] if ints else ['def', 'lpg', 'ort', 'grb', 'eco']
    if cone == 'soc':
        return ['grb'] if ints else ['eco', 'grb']
    return ['eco']


# ==================================================================================================
# declared models
# ==================================================================================================

def _lin_forms(rng, xe, a_by_z, b):
    """x + a.z <= b written in one of several equivalent API forms."""
    terms = []
    for zn, a in a_by_z.items():
        f = rng.randrange(3)
        if f == 0:
            terms.append(['@', ['c', a], ['v', zn]])
        elif f == 1:
            terms.append(['@', ['v', zn], ['c', a]])
        else:
            terms.append(['sum', ['*', ['c', a], ['v', zn]]])
    e = xe
    order = rng.random() < 0.5
    for t in terms:
        e = ['+', e, t] if order else ['+', t, e]
    if rng.random() < 0.3:
        return ['>=', ['c', b], e]
    return ['<=', e, ['c', b]]


def _coef(rng, zs):
    """coefficients on the random arrays; never all zero (a robust row without any random part is a degenerate
    input outside the instance class - RSOME's dro expansion mishandles it, noted in DESIGN.md)"""
    while True:
        a = {zn: [gen.nz2(rng) if rng.random() < 0.85 else 0.0 for _ in range(n)] for zn, n in zs.items()}
        if any(v != 0.0 for vec in a.values() for v in vec):
            return a


def gen_ro_sep(rng, cfg):
    cone = rng.choice(['lp', 'soc', 'soc', 'exp'])
    zs = {'z': rng.randint(2, 4)}
    if rng.random() < 0.4:
        zs['w'] = rng.choice([1, 1, 2, 3])
    K = rng.randint(2, 4)
    fams = gen.fams_for(cone)
    steps = []
    sid = [0]

    def add(op, deps, **kw):
        sid[0] += 1
        s = {'sid': 's%d' % sid[0], 'op': op, 'deps': sorted(deps)}
        s.update(kw)
        steps.append(s)
        return s['sid']

    s_m = add({'op': 'model', 'id': 'm', 'kind': 'ro'}, [])
    s_z = {zn: add({'op': 'rvar', 'id': zn, 'm': 'm', 'shape': [n]}, [s_m]) for zn, n in zs.items()}
    scalar_x = rng.random() < 0.5
    xs, s_x = [], []
    if scalar_x:
        for k in range(K):
            s = add({'op': 'dvar', 'id': 'x%d' % k, 'm': 'm'}, [s_m])
            xs.append(['v', 'x%d' % k])
            s_x.append(s)
    else:
        s = add({'op': 'dvar', 'id': 'x', 'm': 'm', 'shape': [K]}, [s_m])
        xs = [['i', ['v', 'x'], k] for k in range(K)]
        s_x = [s] * K
    s_bound = []
    if scalar_x:
        for k in range(K):
            add({'op': 'cons', 'id': 'bx%d' % k, 'e': ['<=', xs[k], ['c', 50.0]]}, [s_x[k]], role='bound')
            s_bound.append(add({'op': 'st', 'm': 'm', 'ids': ['bx%d' % k]}, [steps[-1]['sid']], role='bound'))
    else:
        add({'op': 'cons', 'id': 'bx', 'e': ['<=', ['v', 'x'], ['c', 50.0]]}, [s_x[0]], role='bound')
        s_bound.append(add({'op': 'st', 'm': 'm', 'ids': ['bx']}, [steps[-1]['sid']], role='bound'))

    expect = {'x': [], 'obj_const': 0.0}
    shared = []
    s_one = [None]
    # optional binary with a user bound that excludes one value (objective rewards ignoring the bound)
    objterms = list(xs)
    ints = False
    if cone != 'exp' and rng.random() < 0.3:
        ints = True
        s_v = add({'op': 'dvar', 'id': 'v', 'm': 'm', 'vtype': 'B'}, [s_m])
        if rng.random() < 0.5:
            add({'op': 'cons', 'id': 'bv', 'e': ['>=', ['v', 'v'], ['c', 1.0]]}, [s_v], role='bound')
            objterms.append(['*', ['c', -3.0], ['v', 'v']])
            expect['obj_const'] += -3.0
        else:
            add({'op': 'cons', 'id': 'bv', 'e': ['<=', ['v', 'v'], ['c', 0.0]]}, [s_v], role='bound')
            objterms.append(['*', ['c', 2.0], ['v', 'v']])
        s_bound.append(add({'op': 'st', 'm': 'm', 'ids': ['bv']}, [steps[-1]['sid']], role='bound'))
        s_x = s_x + [s_v]
    obj = objterms[0]
    for t in objterms[1:]:
        obj = ['+', obj, t]
    # objective, possibly with a default set
    default_set = None
    # 'free_w': the default set says nothing about the second random array, and one row that relies on the default set uses
    # it: no robust solution exists, whether w was declared before or after the objective
    free_w = 'w' in zs and rng.random() < cfg.get('p_free_w', 0.35)
    if free_w or rng.random() < 0.5:
        default_set = gen.gen_set(rng, {'z': zs['z']} if free_w else zs, fams)
        c0 = {zn: [gen.nz2(rng, -1, 1) for _ in range(n)] for zn, n in zs.items() if not (free_w and zn == 'w')}
        e = obj
        for zn, a in c0.items():
            e = ['+', e, ['@', ['c', a], ['v', zn]]]
        # max min_z (sum x + c.z) = sum x - support(-c)
        expect['obj_const'] += -ref.support(default_set, {zn: [-v for v in a] for zn, a in c0.items()})
        s_obj = add({'op': 'obj', 'm': 'm', 'how': 'maxmin', 'e': e, 'blocks': default_set,
                     'set': ref.set_constraints(default_set, zs)},
                    set(s_x) | (set(s_z.values()) if not free_w else {s_z['z']}), role='obj')
    else:
        s_obj = add({'op': 'obj', 'm': 'm', 'how': 'max', 'e': obj}, set(s_x), role='obj')

    # joint rows: the K rows form ONE vector-valued robust constraint x + A z <= b with one set for all rows
    joint = (not scalar_x) and not free_w and rng.random() < cfg.get('p_joint_rows', 0.25)
    if joint:
        own = default_set is None or rng.random() < 0.7
        blocks = gen.gen_set(rng, zs, fams) if own else default_set
        rows = [_coef(rng, zs) for _ in range(K)]
        bvec = [gen.r2(rng, 5, 20) for _ in range(K)]
        for k in range(K):
            expect['x'].append(bvec[k] - ref.support(blocks, rows[k]))
        e_ = ['v', 'x']
        for zn in zs:
            t_ = ['@', ['c', [rows[k][zn] for k in range(K)]], ['v', zn]]
            e_ = ['+', e_, t_] if rng.random() < 0.5 else ['+', t_, e_]
        ce = ['<=', e_, ['c', bvec]] if rng.random() < 0.7 else ['>=', ['c', bvec], e_]
        s_c = add({'op': 'cons', 'id': 'c0', 'e': ce}, {s_x[0]} | set(s_z.values()), role='cons')
        last = s_c
        if own:
            kw = {} if default_set is not None else {'anchor': s_c}
            last = add({'op': 'forall', 'id': 'c0', 'set': ref.set_constraints(blocks, zs),
                        'blocks': blocks}, [s_c] + list(s_z.values()), role='set', **kw)
        add({'op': 'st', 'm': 'm', 'ids': ['c0']},
            ([s_c] if (own and rng.random() < 0.4) else [last]) if own else [last, s_obj], role='st')
    for k in range(0 if joint else K):
        a = _coef(rng, zs)
        cdeps = {s_x[k]} | set(s_z.values())
        if free_w and k == 0:
            # the row that makes the model unsolvable: it uses w and relies on the default set, which leaves w unrestricted
            while not any(a['w']):
                a = _coef(rng, zs)
            expect['x'].append(0.0)
            s_c = add({'op': 'cons', 'id': 'c0', 'e': _lin_forms(rng, xs[0], a, gen.r2(rng, 5, 20))}, cdeps, role='cons')
            add({'op': 'st', 'm': 'm', 'ids': ['c0']}, [s_c, s_obj], role='st')
            continue
        if 'w' in zs and rng.random() < 0.4:
            # the row involves z only: the second random array may be declared after this expression was built
            a = {'z': _coef(rng, {'z': zs['z']})['z'], 'w': [0.0] * zs['w']}
            cdeps = {s_x[k], s_z['z']}
        b = gen.r2(rng, 5, 20)
        own = default_set is None or free_w or rng.random() < 0.7
        blocks = gen.gen_set(rng, zs, fams) if own else default_set
        expect['x'].append(b - ref.support(blocks, a))
        a_used = {zn: v for zn, v in a.items() if any(v)}
        if rng.random() < 0.25:
            # piecewise row: maxof(x + a1.z, x + a2.z) <= b   <=>   x <= b - max_j support(a_j)
            a2 = _coef(rng, {zn: zs[zn] for zn in a_used})
            expect['x'][-1] = b - max(ref.support(blocks, a), ref.support(blocks, {**{zn: [0.0] * zs[zn] for zn in zs}, **a2}))

            def piece(av):
                e_ = xs[k]
                for zn, v in av.items():
                    e_ = ['+', e_, ['@', ['c', v], ['v', zn]]]
                return e_
            ce = ['<=', ['maxof', piece(a_used), piece(a2)], ['c', b]]
            s_c = add({'op': 'cons', 'id': 'c%d' % k, 'e': ce}, cdeps, role='cons', piecewise=True)
        elif len(a_used) == 1 and rng.random() < 0.3:
            # the random part is ONE shared expression object that may meanwhile be used inside a set or a piecewise term
            zn0 = sorted(a_used)[0]
            s_e = add({'op': 'expr', 'id': 'ze%d' % k, 'e': ['@', ['c', a_used[zn0]], ['v', zn0]]}, [s_z[zn0]], role='expr')
            shared.append(('ze%d' % k, zn0))
            ce = ['<=', ['+', xs[k], ['v', 'ze%d' % k]], ['c', b]]
            s_c = add({'op': 'cons', 'id': 'c%d' % k, 'e': ce}, set(cdeps) | {s_e}, role='cons')
        elif len(a_used) == 2 and rng.random() < cfg.get('p_biaffine_parts', 0.6):
            # the random part is a sum of BI-AFFINE expression objects one * (a_z . z) + one * (a_w . w), `one` being a decision
            # fixed to 1; each product is its own object and may be built before the other random array is declared
            if s_one[0] is None:
                s_one[0] = add({'op': 'dvar', 'id': 'one', 'm': 'm'}, [s_m])
                add({'op': 'cons', 'id': 'bone', 'e': ['==', ['v', 'one'], ['c', 1.0]]}, [s_one[0]], role='bound')
                s_bound.append(add({'op': 'st', 'm': 'm', 'ids': ['bone']}, [steps[-1]['sid']], role='bound'))
            parts = []
            for zn in sorted(a_used):
                pid = 'bp%d%s' % (k, zn)
                parts.append((pid, add({'op': 'expr', 'id': pid, 'e': ['*', ['v', 'one'], ['@', ['c', a_used[zn]], ['v', zn]]]},
                                       [s_one[0], s_z[zn]], role='expr')))
            if rng.random() < 0.5:
                parts.reverse()
            e_ = ['+', ['v', parts[0][0]], ['v', parts[1][0]]]
            e_ = ['+', xs[k], e_] if rng.random() < 0.5 else ['+', ['+', ['v', parts[0][0]], xs[k]], ['v', parts[1][0]]]
            s_c = add({'op': 'cons', 'id': 'c%d' % k, 'e': ['<=', e_, ['c', b]]}, {s_x[k]} | {p_[1] for p_ in parts}, role='cons')
        else:
            s_c = add({'op': 'cons', 'id': 'c%d' % k, 'e': _lin_forms(rng, xs[k], a_used, b)}, cdeps, role='cons')
        last = s_c
        if own:
            kw = {} if default_set is not None else {'anchor': s_c}
            last = add({'op': 'forall', 'id': 'c%d' % k, 'set': ref.set_constraints(blocks, zs),
                        'blocks': blocks}, [s_c] + list(s_z.values()), role='set', **kw)
        # the set may also be attached AFTER the constraint object was handed to st() (same Python object)
        st_after_cons_only = own and rng.random() < 0.4
        add({'op': 'st', 'm': 'm', 'ids': ['c%d' % k]},
            ([s_c] if st_after_cons_only else [last]) if own else [last, s_obj], role='st')
        # a constraint relying on the default set is only meaningful once the objective (and its set) exists

    if rng.random() < cfg.get('p_tied_rules', 0.25):
        # a decision rule outside the objective pinned by a robust EQUALITY e(z) == a z0 + b; the equality gets its own set,
        # before or after it was handed to st() (the model may have no default set at all)
        s_e1 = add({'op': 'ldr', 'id': 'e1_', 'm': 'm', 'shape': []}, [s_m])
        s_ea = add({'op': 'adapt', 'tgt': ['v', 'e1_'], 'to': ['i', ['v', 'z'], [0, 1]]}, [s_e1, s_z['z']], role='adapt')
        blocks_t = gen.gen_set(rng, zs, fams)
        s_tq = add({'op': 'cons', 'id': 'tq', 'e': ['==', ['v', 'e1_'], ['+', ['*', ['c', gen.nz2(rng)], ['i', ['v', 'z'], 0]], ['c', 1.0]]]},
                   [s_e1, s_ea] + list(s_z.values()), role='tie')
        s_tf = add({'op': 'forall', 'id': 'tq', 'set': ref.set_constraints(blocks_t, zs), 'blocks': blocks_t},
                   [s_tq] + list(s_z.values()), role='set', anchor=s_tq)
        add({'op': 'st', 'm': 'm', 'ids': ['tq']}, [s_tq] if rng.random() < 0.5 else [s_tf], role='st')
    # late extra variable (not in the objective): bounded, optionally integer
    if rng.random() < 0.5:
        vt = 'C' if cone == 'exp' else rng.choice(['C', 'I', 'I', 'B'])
        ints = ints or vt != 'C'
        s_u = add({'op': 'dvar', 'id': 'u', 'm': 'm', 'shape': [rng.randint(1, 2)], 'vtype': vt}, [s_m], late=True)
        add({'op': 'cons', 'id': 'bu1', 'e': ['<=', ['v', 'u'], ['c', 5.0]]}, [s_u], late=True, role='bound')
        add({'op': 'cons', 'id': 'bu2', 'e': ['>=', ['v', 'u'], ['c', 0.0]]}, [s_u], late=True, role='bound')
        add({'op': 'st', 'm': 'm', 'ids': ['bu1', 'bu2']}, [steps[-2]['sid'], steps[-1]['sid']], late=True,
            role='bound')
    xnames = ['x%d' % k for k in range(K)] if scalar_x else ['x']
    out = {'family': 'ro-sep', 'model': 'm', 'cone': cone, 'ints': ints, 'zs': zs, 'steps': steps,
           'expect': expect, 'xnames': xnames, 'pool': solver_pool(cone, ints), 'shared_z': shared}
    if free_w:
        out['expect_nosol'] = True
    return out


def gen_probset(rng, S):
    praw = [rng.randint(1, 6) for _ in range(S)]
    phat = [round(x / sum(praw), 6) for x in praw]
    phat[-1] = round(1.0 - sum(phat[:-1]), 6)
    k = rng.choice(['fixed', 'fixed', 'box', 'l1', 'linf'])
    P = {'kind': k, 'phat': phat}
    if k in ('box', 'linf'):
        P['d'] = rng.choice([0.05, 0.1, 0.2])
    if k == 'l1':
        P['theta'] = rng.choice([0.1, 0.2, 0.4])
    return P


def gen_dro_sep(rng, cfg):
    """scenario-wise separable dro probe model: supports per scenario (and per ambiguity set) from the closed-form
    families, probability sets with a direct reference LP, constraints with and without E, attached to one of up
    to two ambiguity sets or to the objective's default."""
    cone = rng.choice(['lp', 'lp', 'soc', 'soc', 'exp'])
    moment_mode = rng.random() < cfg.get('p_moments', 0.35)      # expectation sets: box supports + reference LP
    if moment_mode:
        cone = 'lp'
    S = rng.randint(1, 4)
    labk = rng.randrange(3)
    labels = list(range(S)) if labk == 0 else (['s%d' % i for i in range(S)] if labk == 1 else rng.sample(range(10, 99), S))
    intlab = labk == 0
    zs = {'z': rng.randint(1, 3)}
    if rng.random() < 0.3 and not moment_mode:
        zs['w'] = rng.randint(1, 2)
    K = rng.randint(2, 4)
    fams = ['box', 'absbox'] if moment_mode else gen.fams_for(cone)
    steps = []

    def add(op, deps, **kw):
        s_ = {'sid': 's%d' % (len(steps) + 1), 'op': op, 'deps': sorted(deps)}
        s_.update(kw)
        steps.append(s_)
        return s_['sid']

    s_m = add({'op': 'model', 'id': 'm', 'kind': 'dro', 'scens': S if intlab else labels}, [])
    s_z = {zn: add({'op': 'rvar', 'id': zn, 'm': 'm', 'shape': [n]}, [s_m]) for zn, n in zs.items()}
    scalar_x = rng.random() < 0.5
    xs, s_x = [], []
    if scalar_x:
        for k in range(K):
            s_x.append(add({'op': 'dvar', 'id': 'x%d' % k, 'm': 'm'}, [s_m]))
            xs.append(['v', 'x%d' % k])
    else:
        sx = add({'op': 'dvar', 'id': 'x', 'm': 'm', 'shape': [K]}, [s_m])
        xs = [['i', ['v', 'x'], k] for k in range(K)]
        s_x = [sx] * K
    # two affinely adaptive decisions outside the objective, tied later by an equality with its own ambiguity set; declared
    # (and adapted) here, ahead of every expression
    tied = cone != 'exp' and rng.random() < cfg.get('p_tied_rules', 0.25)
    s_tie, s_tiead = [], []
    if tied:
        s_tie = [add({'op': 'dvar', 'id': 'e%d_' % j, 'm': 'm'}, [s_m]) for j in (1, 2)]
        zn0 = sorted(zs)[0]
        s_tiead = [add({'op': 'adapt', 'tgt': ['v', 'e%d_' % j], 'to': ['i', ['v', zn0], [0, 1]]}, [s_tie[j - 1], s_z[zn0]], role='adapt')
                   for j in (1, 2)]
    # event-wise decisions: x_k takes one value per declared event (only with scalar decisions, robust rows)
    ew_mode = scalar_x and S >= 2 and rng.random() < cfg.get('p_eventwise', 0.3)
    ew_part = {}
    s_adapt = {}
    if ew_mode:
        from machines.part import RefPartition, gen_partition_calls
        for k in range(K):
            if rng.random() < 0.7:
                rp = RefPartition(S)
                prev = None
                for positions in gen_partition_calls(rng, S):
                    rp.adapt(positions)
                    labs = [labels[q] for q in positions]
                    prev = add({'op': 'adapt', 'tgt': ['v', 'x%d' % k], 'to': {'scen': labs if len(labs) > 1 or rng.random() < 0.5 else labs[0]}},
                               [s_x[k]] + ([prev] if prev else []), role='adapt')
                    s_adapt.setdefault(k, []).append(prev)
                ew_part[k] = rp.event_of()
    # extra variable outside the objective.  In dro a decision declared after an expression was built used to break
    # formulation (finding K6, repaired by F34/F35); in a third of the runs it may follow expressions and formulations.
    ints = False
    s_u = None
    hazard_late_dvar = rng.random() < cfg.get('p_dro_late_dvar', 0.35)
    if rng.random() < 0.4:
        vt = 'C' if cone == 'exp' else rng.choice(['C', 'I', 'B'])
        ints = vt != 'C'
        s_u = add({'op': 'dvar', 'id': 'u', 'm': 'm', 'shape': [rng.randint(1, 2)], 'vtype': vt}, [s_m], late=True)
    before_expr = [s_u] if (s_u and not hazard_late_dvar) else []
    # ambiguity sets (all of them before the first st - a documented API rule)
    namb = rng.choice([1, 1, 2])
    ambs = {}
    s_amb = []
    for ai in range(namb):
        an = 'FG'[ai]
        sa = add({'op': 'amb', 'id': an, 'm': 'm'}, [s_m], role='amb')
        s_amb.append(sa)
        supports = [None] * S
        groups = []
        if rng.random() < 0.3:
            groups = [list(range(S))]
        else:
            pos = list(range(S))
            rng.shuffle(pos)
            while pos:
                k_ = rng.randint(1, len(pos))
                groups.append(sorted(pos[:k_]))
                pos = pos[k_:]
        for g in groups:
            blocks = gen.gen_set(rng, zs, fams)
            for s_ in g:
                supports[s_] = blocks
            if len(g) == S and rng.random() < 0.5:
                sc = None
            else:
                labs = [labels[q] for q in g]
                sc = (labs if len(labs) > 1 or rng.random() < 0.5 else labs[0])
                if not intlab:
                    sc = {'loc': sc}
            add({'op': 'supp', 'amb': an, 'scen': sc, 'set': ref.set_constraints(blocks, zs), 'blocks': blocks},
                [sa] + list(s_z.values()), role='supp', anchor=sa)
        P = gen_probset(rng, S)
        pdeps = [sa]
        if rng.random() < cfg.get('p_probset_redeclared', 0.3):
            # a probability set declared earlier for the same ambiguity set and then re-declared: the later one replaces it
            P_old = gen_probset(rng, S)
            pdeps.append(add({'op': 'prob', 'amb': an, 'set': ref.prob_constraints('m.p', P_old)}, [sa], role='prob',
                             late=rng.random() < 0.3, replaced=True))
        add({'op': 'prob', 'amb': an, 'set': ref.prob_constraints('m.p', P)}, pdeps, role='prob', late=rng.random() < 0.5)
        ambs[an] = {'supports': supports, 'P': P, 'moments': []}
        if moment_mode:
            nz_ = zs['z']
            boxes = [ref.box_of(supports[s_], nz_) for s_ in range(S)]
            phat = P['phat']
            for _ in range(rng.randint(1, 2)):
                ev = sorted(rng.sample(range(S), rng.randint(1, S))) if rng.random() < 0.6 else list(range(S))
                tot = sum(phat[s_] for s_ in ev)
                ctr = [sum(phat[s_] * (boxes[s_][0][i] + boxes[s_][1][i]) / 2.0 for s_ in ev) / tot for i in range(nz_)]
                mlo, mhi, cs = [], [], []
                ez = ['E', ['v', 'z']]
                how = rng.randrange(3)
                h = [gen.r2(rng, 0.05, 0.6) for _ in range(nz_)]
                if how == 0:
                    mlo = [round(ctr[i] - h[i], 4) for i in range(nz_)]
                    mhi = [round(ctr[i] + h[i], 4) for i in range(nz_)]
                    cs = [['>=', ez, ['c', mlo]], ['<=', ez, ['c', mhi]]]
                elif how == 1:
                    mlo = [None] * nz_
                    mhi = [round(ctr[i] + h[i] - 0.3, 4) for i in range(nz_)]
                    mhi = [max(mhi[i], round(ctr[i] - 0.2, 4)) for i in range(nz_)]
                    cs = [['<=', ez, ['c', mhi]]]
                else:
                    mu = [round(ctr[i] + (h[i] - 0.3) * 0.5, 4) for i in range(nz_)]
                    mlo, mhi = list(mu), list(mu)
                    cs = [['==', ez, ['c', mu]]]
                if len(ev) == S and rng.random() < 0.5:
                    sc = None
                else:
                    labs = [labels[q] for q in ev]
                    sc = labs if intlab else {'loc': labs}
                try:        # keep only moment sets that leave the ambiguity set non-empty (with margin)
                    trial = ambs[an]['moments'] + [(ev, [None if v is None else v + 1e-3 for v in mlo],
                                                    [None if v is None else v - 1e-3 for v in mhi])]
                    if how != 2:
                        ref.worst_case_expectation_moments(P, boxes, [0.0] * nz_, trial)
                    else:
                        ref.worst_case_expectation_moments(P, boxes, [0.0] * nz_, ambs[an]['moments'] + [(ev, mlo, mhi)])
                except RuntimeError:
                    continue
                add({'op': 'expt', 'amb': an, 'scen': sc, 'set': cs}, [sa] + list(s_z.values()), role='expt', late=rng.random() < 0.5)
                ambs[an]['moments'].append((ev, mlo, mhi))
            ambs[an]['boxes'] = boxes
            # second-order-cone mean sets ||E[z_I | event] - ctr||_2 <= rad, possibly two of different cone sizes
            ambs[an]['balls'] = []
            if rng.random() < cfg.get('p_moment_balls', 0.4):
                sizes = [nz_] + ([rng.randint(1, nz_ - 1)] if nz_ >= 2 and rng.random() < 0.7 else [])
                rng.shuffle(sizes)
                for k_ in sizes:
                    ev = sorted(rng.sample(range(S), rng.randint(1, S))) if rng.random() < 0.6 else list(range(S))
                    tot = sum(phat[s_] for s_ in ev)
                    I = list(range(k_))
                    ctr = [round(sum(phat[s_] * (boxes[s_][0][i] + boxes[s_][1][i]) / 2.0 for s_ in ev) / tot + gen.r2(rng, -0.1, 0.1), 4)
                           for i in I]
                    rad = gen.r2(rng, 0.15, 0.7)
                    ez = ['E', ['v', 'z']] if k_ == nz_ else ['i', ['E', ['v', 'z']], [0, k_]]
                    cs = [['<=', ['norm', ['-', ez, ['c', ctr]], 2], ['c', rad]]]
                    if len(ev) == S and rng.random() < 0.5:
                        sc = None
                    else:
                        labs = [labels[q] for q in ev]
                        sc = labs if intlab else {'loc': labs}
                    try:        # keep the ball only if the ambiguity set stays non-empty with margin
                        ref.worst_case_expectation_moments(P, boxes, [0.0] * nz_, ambs[an]['moments'],
                                                           balls=ambs[an]['balls'] + [(ev, I, ctr, rad - 0.02)])
                    except RuntimeError:
                        continue
                    add({'op': 'expt', 'amb': an, 'scen': sc, 'set': cs}, [sa] + list(s_z.values()), role='expt', late=rng.random() < 0.5)
                    ambs[an]['balls'].append((ev, I, ctr, rad))
                if ambs[an]['balls']:
                    cone = 'soc'

    def wce(an, a):
        if ambs[an]['moments'] or ambs[an].get('balls'):
            return ref.worst_case_expectation_moments(ambs[an]['P'], ambs[an]['boxes'], a['z'], ambs[an]['moments'],
                                                      balls=ambs[an].get('balls'))
        deltas = [ref.support(ambs[an]['supports'][s_], a) for s_ in range(S)]
        return ref.worst_case_expectation(ambs[an]['P'], deltas)

    def wcs(an, a):
        return max(ref.support(ambs[an]['supports'][s_], a) for s_ in range(S))

    s_bound = []
    all_adapt_early = [sid_ for lst in s_adapt.values() for sid_ in lst]
    if scalar_x:
        for k in range(K):
            add({'op': 'cons', 'id': 'bx%d' % k, 'e': ['<=', xs[k], ['c', 50.0]]}, list(set(s_x)) + before_expr + all_adapt_early, role='bound')
            s_bound.append(add({'op': 'st', 'm': 'm', 'ids': ['bx%d' % k]}, [steps[-1]['sid']] + s_amb, role='bound', anchor=s_x[k]))
    else:
        add({'op': 'cons', 'id': 'bx', 'e': ['<=', ['v', 'x'], ['c', 50.0]]}, [s_x[0]] + before_expr, role='bound')
        s_bound.append(add({'op': 'st', 'm': 'm', 'ids': ['bx']}, [steps[-1]['sid']] + s_amb, role='bound', anchor=s_x[0]))

    expect = {'x': [], 'obj_const': 0.0}
    shared = []
    obj = xs[0]
    for t in xs[1:]:
        obj = ['+', obj, t]
    default_amb = None
    all_adapt = [sid_ for lst in s_adapt.values() for sid_ in lst]
    obj_info = {'how': 'max', 'c0': None}
    if rng.random() < 0.6:
        default_amb = rng.choice(sorted(ambs))
        if rng.random() < 0.6:
            c0 = {zn: [gen.nz2(rng, -1, 1) for _ in range(n)] for zn, n in zs.items()}
            e = obj
            for zn, a in c0.items():
                e = ['+', e, ['@', ['c', a], ['v', zn]]]
            expect['obj_const'] += -wce(default_amb, {zn: [-v for v in a] for zn, a in c0.items()})
            obj_e = ['E', e]
            obj_info = {'how': 'E', 'c0': c0}
        else:
            obj_e = ['E', obj] if (rng.random() < 0.5 or ew_part) else obj
            obj_info = {'how': 'E' if obj_e[0] == 'E' else 'max', 'c0': None}
        s_obj = add({'op': 'obj', 'm': 'm', 'how': 'maxinf', 'e': obj_e, 'amb': default_amb},
                    set(s_x) | set(s_z.values()) | {s_amb['FG'.index(default_amb)]} | set(before_expr) | set(all_adapt), role='obj')
    else:
        s_obj = add({'op': 'obj', 'm': 'm', 'how': 'max', 'e': obj}, set(s_x) | set(before_expr) | set(all_adapt), role='obj')

    # joint rows: all K rows in ONE vector-valued constraint (x + A z <= b, with or without E), one set for all of them;
    # row k still pins x[k] to b_k minus the worst case of its own a_k
    joint = (not scalar_x) and rng.random() < cfg.get('p_joint_rows', 0.3)
    if joint:
        etype = rng.random() < 0.6
        own = default_amb is None or rng.random() < 0.7
        an = rng.choice(sorted(ambs)) if own else default_amb
        rows = [_coef(rng, zs) for _ in range(K)]
        bvec = [gen.r2(rng, 5, 20) for _ in range(K)]
        for k in range(K):
            expect['x'].append(bvec[k] - (wce(an, rows[k]) if etype else wcs(an, rows[k])))
        e_ = ['v', 'x']
        for zn in zs:
            t_ = ['@', ['c', [rows[k][zn] for k in range(K)]], ['v', zn]]
            e_ = ['+', e_, t_] if rng.random() < 0.5 else ['+', t_, e_]
        if etype:
            e_ = ['E', e_]
        ce = ['<=', e_, ['c', bvec]] if rng.random() < 0.7 else ['>=', ['c', bvec], e_]
        cdeps = set(s_x) | set(s_z.values()) | set(before_expr)
        s_c = add({'op': 'cons', 'id': 'c0', 'e': ce}, cdeps, role='cons')
        last = s_c
        if own:
            kw = {} if default_amb is not None else {'anchor': s_c}
            last = add({'op': 'forall', 'id': 'c0', 'amb': an}, [s_c, s_amb['FG'.index(an)]], role='set', **kw)
        add({'op': 'st', 'm': 'm', 'ids': ['c0']},
            [s_c if (own and rng.random() < 0.4) else last] + s_amb + ([] if own else [s_obj]), role='st')
    for k in range(0 if joint else K):
        a = _coef(rng, zs)
        b = gen.r2(rng, 5, 20)
        etype = rng.random() < 0.45 and k not in ew_part
        own = default_amb is None or rng.random() < 0.7
        an = rng.choice(sorted(ambs)) if own else default_amb
        expect['x'].append(b - (wce(an, a) if etype else wcs(an, a)))
        if k in ew_part:
            # one value per declared event: the row must hold in every scenario of the event
            xs_k = [b - max(ref.support(ambs[an]['supports'][q], a) for q in ew_part[k][s_]) for s_ in range(S)]
            expect.setdefault('xs', {})[k] = xs_k
        ce = _lin_forms(rng, xs[k], a, b)
        if etype:
            ce = [ce[0], ['E', ce[1]], ce[2]] if ce[0] == '<=' else [ce[0], ce[1], ['E', ce[2]]]
        cdeps = {s_x[k]} | set(s_x) | set(s_z.values()) | set(before_expr) | set(all_adapt)
        pw = False
        if etype and not ambs[an]['moments'] and not ambs[an].get('balls') and rng.random() < 0.3:
            # E(maxof(x + a1.z, x + a2.z)) <= b: sup of a max is the max of sups per scenario, then the worst case over p
            pw = True
            a2 = _coef(rng, zs)
            deltas = [max(ref.support(ambs[an]['supports'][s_], a), ref.support(ambs[an]['supports'][s_], a2)) for s_ in range(S)]
            expect['x'][-1] = b - ref.worst_case_expectation(ambs[an]['P'], deltas)

            def piece(av):
                e_ = xs[k]
                for zn, v in av.items():
                    if any(v):
                        e_ = ['+', e_, ['@', ['c', v], ['v', zn]]]
                return e_
            ce = ['<=', ['E', ['maxof', piece(a), piece(a2)]], ['c', b]]
        if not etype and rng.random() < 0.35:
            # the left-hand side is one shared Python expression object (it may be wrapped elsewhere in the meantime)
            lhs = ce[1] if ce[0] == '<=' else ce[2]
            s_e = add({'op': 'expr', 'id': 'e%d' % k, 'e': lhs}, cdeps, role='expr')
            ce = ['<=', ['v', 'e%d' % k], ce[2]] if ce[0] == '<=' else ['>=', ce[1], ['v', 'e%d' % k]]
            cdeps = cdeps | {s_e}
            shared.append('e%d' % k)
        s_c = add({'op': 'cons', 'id': 'c%d' % k, 'e': ce}, cdeps, role='cons')
        last = s_c
        if own:
            kw = {} if default_amb is not None else {'anchor': s_c}
            last = add({'op': 'forall', 'id': 'c%d' % k, 'amb': an}, [s_c, s_amb['FG'.index(an)]], role='set', **kw)
        # (forall() of a piecewise expectation constraint returns a NEW object, so it has to precede st())
        st_after_cons_only = own and not pw and rng.random() < 0.4
        add({'op': 'st', 'm': 'm', 'ids': ['c%d' % k]},
            [s_c if st_after_cons_only else last] + s_amb + ([] if own else [s_obj]), role='st')
    if ew_part:
        vs = [sum((expect['xs'][k][s_] if k in ew_part else expect['x'][k]) for k in range(K)) for s_ in range(S)]
        if obj_info['how'] == 'max':
            expect['obj'] = min(vs)                      # a robust objective holds in every scenario
        else:
            c0 = obj_info['c0']
            A = ambs[default_amb]
            if A['moments'] or A.get('balls'):
                a_ = [-v for v in c0['z']] if c0 else [0.0] * zs['z']
                expect['obj'] = -ref.worst_case_expectation_moments(A['P'], A['boxes'], a_, A['moments'], vconst=[-v for v in vs],
                                                                    balls=A.get('balls'))
            else:
                neg = {zn: [-v for v in a] for zn, a in c0.items()} if c0 else None
                deltas = [(ref.support(A['supports'][s_], neg) if neg else 0.0) - vs[s_] for s_ in range(S)]
                expect['obj'] = -ref.worst_case_expectation(A['P'], deltas)
    if s_u:
        add({'op': 'cons', 'id': 'bu1', 'e': ['<=', ['v', 'u'], ['c', 5.0]]}, [s_u], late=True, role='bound')
        add({'op': 'cons', 'id': 'bu2', 'e': ['>=', ['v', 'u'], ['c', 0.0]]}, [s_u], late=True, role='bound')
        add({'op': 'st', 'm': 'm', 'ids': ['bu1', 'bu2']}, [steps[-2]['sid'], steps[-1]['sid']] + s_amb, late=True,
            role='bound', anchor=s_u)
    if tied:
        # the EQUALITY carries its own ambiguity set (the model may have no default set at all): e1(z) + e2(z) == 1 for all z,
        # both bounded; feasible with constant rules
        an_t = rng.choice(sorted(ambs))
        sa_t = s_amb['FG'.index(an_t)]
        tie = [('tq', ['==', ['+', ['v', 'e1_'], ['v', 'e2_']], ['c', 1.0]]), ('tl', ['>=', ['v', 'e1_'], ['c', -20.0]]),
               ('tu', ['<=', ['v', 'e1_'], ['c', 20.0]])]
        for cid, ce_ in tie:
            sc_ = add({'op': 'cons', 'id': cid, 'e': ce_}, s_tie + s_tiead, role='bound')
            sf_ = add({'op': 'forall', 'id': cid, 'amb': an_t}, [sc_, sa_t], role='set')
            add({'op': 'st', 'm': 'm', 'ids': [cid]}, [sf_] + s_amb, role='bound')
    # dro: in the other runs every expression is built after every decision variable exists
    if not hazard_late_dvar:
        dv = [s_['sid'] for s_ in steps if s_['op']['op'] == 'dvar']
        for s_ in steps:
            if s_['op']['op'] in ('cons', 'obj', 'expr'):
                s_['deps'] = sorted(set(s_['deps']) | set(dv))
    xnames = ['x%d' % k for k in range(K)] if scalar_x else ['x']
    return {'family': 'dro-sep', 'model': 'm', 'cone': cone, 'ints': ints, 'zs': zs, 'steps': steps, 'labels': labels,
            'expect': expect, 'xnames': xnames, 'pool': solver_pool(cone, ints), 'shared': shared}


def gen_ro_gen(rng, cfg):
    """coupled ro model (differential oracles L2/L3 only): continuous / integer / binary blocks, a decision rule with a
    random dependency mask, coupled robust <= / >= / == rows with per-row sets, deterministic rows whose atoms allocate
    auxiliary columns (abs, 1-/2-/inf-norm, square, sumsqr, p-norm, power, exp, log, entropy), worst-case objective."""
    cone = rng.choice(['lp', 'lp', 'soc', 'soc', 'exp'])
    n = rng.randint(2, 4)
    nz = rng.randint(2, 4)
    zs = {'z': nz}
    fams = gen.fams_for(cone)
    steps = []

    def add(op, deps, **kw):
        s_ = {'sid': 's%d' % (len(steps) + 1), 'op': op, 'deps': sorted(deps)}
        s_.update(kw)
        steps.append(s_)
        return s_['sid']

    s_m = add({'op': 'model', 'id': 'm', 'kind': 'ro'}, [])
    s_z = add({'op': 'rvar', 'id': 'z', 'm': 'm', 'shape': [nz]}, [s_m])
    s_x = add({'op': 'dvar', 'id': 'x', 'm': 'm', 'shape': [n]}, [s_m])
    x0 = [gen.r2(rng, -1, 1) for _ in range(n)]
    add({'op': 'cons', 'id': 'bxl', 'e': ['>=', ['v', 'x'], ['c', [round(v - gen.r2(rng, 1, 3), 2) for v in x0]]]}, [s_x], role='bound')
    add({'op': 'cons', 'id': 'bxu', 'e': ['<=', ['v', 'x'], ['c', [round(v + gen.r2(rng, 1, 3), 2) for v in x0]]]}, [s_x], role='bound')
    add({'op': 'st', 'm': 'm', 'ids': ['bxl', 'bxu']}, [steps[-2]['sid'], steps[-1]['sid']], role='bound', anchor=s_x)
    ints = False
    s_iv = None
    if cone != 'exp' and rng.random() < 0.5:
        ints = True
        vt = rng.choice(['I', 'B'])
        k = rng.randint(1, 2)
        s_iv = add({'op': 'dvar', 'id': 'iv', 'm': 'm', 'shape': [k], 'vtype': vt}, [s_m], late=True)
        add({'op': 'cons', 'id': 'bil', 'e': ['>=', ['v', 'iv'], ['c', [0.0] * k]]}, [s_iv], role='bound', late=True)
        add({'op': 'cons', 'id': 'biu', 'e': ['<=', ['v', 'iv'], ['c', [rng.choice([1.0, 2.5, 3.0])] * k]]}, [s_iv], role='bound', late=True)
        add({'op': 'st', 'm': 'm', 'ids': ['bil', 'biu']}, [steps[-2]['sid'], steps[-1]['sid']], role='bound', anchor=s_iv, late=True)
    # decision rule
    s_y = None
    dep = []
    if rng.random() < 0.6:
        s_y = add({'op': 'ldr', 'id': 'y', 'm': 'm', 'shape': [1]}, [s_m])
        s_ad = []
        dep = sorted(rng.sample(range(nz), rng.randint(0, nz)))
        prev = None
        for j in dep:
            prev = add({'op': 'adapt', 'tgt': ['v', 'y'], 'to': ['i', ['v', 'z'], [j, j + 1]]}, [s_y, s_z] + ([prev] if prev else []), role='adapt')
            s_ad.append(prev)
    default_set = gen.gen_set(rng, zs, fams)
    # objective: min max_z ( c.x [+ y] + d.z )
    cx = [gen.nz2(rng, -2, 2) for _ in range(n)]
    dz = [gen.nz2(rng, -1, 1) for _ in range(nz)]
    oe = ['+', ['@', ['c', cx], ['v', 'x']], ['@', ['c', dz], ['v', 'z']]]
    odeps = {s_x, s_z}
    if s_iv:
        oe = ['+', oe, ['sum', ['*', ['c', gen.nz2(rng, -1, 1)], ['v', 'iv']]]]
        odeps.add(s_iv)
    if s_y:
        oe = ['+', oe, ['sum', ['v', 'y']]]
        odeps |= {s_y} | set(s_ad)
    s_obj = add({'op': 'obj', 'm': 'm', 'how': 'minmax', 'e': oe, 'set': ref.set_constraints(default_set, zs), 'blocks': default_set},
                odeps, role='obj')
    if s_y:
        # y_j stays within a band around c.z so that the model is bounded whatever the dependency mask is
        cj = [gen.nz2(rng, -1, 1) for _ in range(nz)]
        up = ref.support(default_set, {'z': cj})
        lo = ref.support(default_set, {'z': [-v for v in cj]})
        width = round(up + lo + 1.0, 2)
        mid = round((up - lo) / 2.0, 2)
        add({'op': 'cons', 'id': 'ry1', 'e': ['<=', ['-', ['v', 'y'], ['@', ['c', cj], ['v', 'z']]], ['c', round(width - mid, 2)]]}, [s_y, s_z] + s_ad, role='cons')
        add({'op': 'cons', 'id': 'ry2', 'e': ['>=', ['-', ['v', 'y'], ['@', ['c', cj], ['v', 'z']]], ['c', round(-width - mid, 2)]]}, [s_y, s_z] + s_ad, role='cons')
        add({'op': 'st', 'm': 'm', 'ids': ['ry1', 'ry2']}, [steps[-2]['sid'], steps[-1]['sid'], s_obj], role='bound', anchor=s_y)
    # robust rows with own / default sets
    for k in range(rng.randint(1, 3)):
        a = [gen.nz2(rng, -2, 2) if rng.random() < 0.8 else 0.0 for _ in range(n)]
        r = _coef(rng, zs)['z']
        own = rng.random() < 0.6
        blocks = gen.gen_set(rng, zs, fams) if own else default_set
        sense = rng.choice(['<=', '<=', '>='])
        ax0 = sum(u * v for u, v in zip(a, x0))
        if sense == '<=':
            b = round(ax0 + ref.support(blocks, {'z': r}) + gen.r2(rng, 0.2, 2), 3)
        else:
            b = round(ax0 - ref.support(blocks, {'z': [-v for v in r]}) - gen.r2(rng, 0.2, 2), 3)
        e = [sense, ['+', ['@', ['c', a], ['v', 'x']], ['@', ['c', r], ['v', 'z']]], ['c', b]]
        s_c = add({'op': 'cons', 'id': 'r%d' % k, 'e': e}, [s_x, s_z], role='cons')
        last = s_c
        if own:
            last = add({'op': 'forall', 'id': 'r%d' % k, 'set': ref.set_constraints(blocks, zs), 'blocks': blocks}, [s_c], role='set')
        add({'op': 'st', 'm': 'm', 'ids': ['r%d' % k]}, [last] + ([] if own else [s_obj]), role='st')
    # deterministic rows whose atoms allocate auxiliary columns
    atoms = ['abs', 'n1', 'ninf']
    if cone in ('soc', 'exp'):
        atoms += ['n2', 'sumsqr', 'square', 'pn', 'pow']
    if cone == 'exp':
        atoms += ['exp', 'log', 'entropy']
    for k in range(rng.randint(1, 3)):
        at = rng.choice(atoms)
        xe = ['-', ['v', 'x'], ['c', x0]]
        if at == 'abs':
            e = ['<=', ['f', 'abs', xe], ['c', [gen.r2(rng, 0.5, 2) for _ in range(n)]]]
        elif at in ('n1', 'ninf', 'n2'):
            e = ['<=', ['norm', xe, {'n1': 1, 'ninf': 'inf', 'n2': 2}[at]], ['c', gen.r2(rng, 0.5, 3)]]
        elif at == 'sumsqr':
            e = ['<=', ['f', 'sumsqr', xe], ['c', gen.r2(rng, 0.5, 3)]]
        elif at == 'square':
            e = ['<=', ['f', 'square', xe], ['c', [gen.r2(rng, 0.5, 2) for _ in range(n)]]]
        elif at == 'pn':
            e = ['<=', ['pnorm', xe, rng.choice([3, [5, 2]]), 'soc'], ['c', gen.r2(rng, 0.5, 3)]]
        elif at == 'pow':
            e = ['<=', ['f', 'power', xe, rng.choice([2, 3]), 1], ['c', [gen.r2(rng, 0.5, 2) for _ in range(n)]]]
        elif at == 'exp':
            e = ['<=', ['f', 'exp', ['*', ['c', 0.3], xe]], ['c', [gen.r2(rng, 1.2, 3) for _ in range(n)]]]
        elif at == 'log':
            e = ['>=', ['f', 'log', ['+', xe, ['c', [3.0] * n]]], ['c', [gen.r2(rng, 0.0, 0.9) for _ in range(n)]]]
        else:
            e = ['>=', ['f', 'entropy', ['+', xe, ['c', [3.0] * n]]], ['c', round(-n * 3.0 * 1.0986122886681098 - gen.r2(rng, 0.5, 2), 3)]]
        s_c = add({'op': 'cons', 'id': 'd%d' % k, 'e': e}, [s_x], role='cons')
        add({'op': 'st', 'm': 'm', 'ids': ['d%d' % k]}, [s_c], role='st')
    return {'family': 'ro-gen', 'model': 'm', 'cone': cone, 'ints': ints, 'zs': zs, 'steps': steps, 'expect': None,
            'xnames': ['x'], 'pool': solver_pool(cone, ints)}


def gen_dro_gen(rng, cfg):
    """event-wise static and affine adaptation (generator shared with M-PART): partitions and dependency masks built
    by adapt() histories, per-scenario supports, fixed probabilities; closed-form optimum known."""
    from machines import part
    kind = rng.choice(['dro', 'dro', 'ro'])
    c = part.gen_combo(rng, cfg, kind)
    steps = [{'sid': 'm0', 'op': c['model_op'], 'deps': []}]
    obj_sid = None
    for s_ in c['steps']:
        t = dict(s_)
        t['deps'] = sorted(set(t['deps']) | {'m0'})
        if t.get('role') == 'obj':
            obj_sid = t['sid']
        steps.append(t)
    for t in steps:
        if t.get('role') == 'st':
            t['anchor'] = obj_sid          # the model is bounded only once its constraints are in
            t['deps'] = sorted(set(t['deps']) | {obj_sid})
    # in dro every expression must follow every decision variable (finding K6); part.gen_combo guarantees it
    return {'family': 'dro-gen' if kind == 'dro' else 'ro-ldr', 'model': 'm', 'cone': 'lp', 'ints': c['integer_y'],
            'zs': {an: hi - lo for an, lo, hi in c['arrays']},
            'steps': steps, 'expect': {'opt': c['expect']['opt']}, 'xnames': ['t'], 'pool': c['pool']}


def gen_front(rng, cfg):
    """stand-alone lp / socp / gcp front-end models (generator shared with M-PEER): constraints are added one by one,
    with formulate / solve events in between; differential oracles only."""
    from machines import peer
    while True:
        prog = peer.gen_program(rng, {})
        if prog['variant'] == 'feasible':
            break
    cls = prog['cls']
    kind = {'LP': rng.choice(['lp', 'socp', 'gcp']), 'MILP': rng.choice(['lp', 'socp', 'gcp']),
            'SOCP': rng.choice(['socp', 'gcp']), 'MISOCP': rng.choice(['socp', 'gcp']), 'EXP': 'gcp'}[cls]
    cone = {'LP': 'lp', 'MILP': 'lp', 'SOCP': 'soc', 'MISOCP': 'soc', 'EXP': 'exp'}[cls]
    steps = []

    def add(op, deps, **kw):
        s_ = {'sid': 's%d' % (len(steps) + 1), 'op': op, 'deps': sorted(deps)}
        s_.update(kw)
        steps.append(s_)
        return s_['sid']
    s_m = add({'op': 'model', 'id': 'm', 'kind': kind}, [])
    dv = {}
    cons = {}
    for op in prog['ops']:
        if op['op'] == 'dvar':
            dv[op['id']] = add(dict(op), [s_m])
        elif op['op'] == 'cons':
            cons[op['id']] = op
    s_obj = None
    for op in prog['ops']:
        if op['op'] == 'obj':
            s_obj = add(dict(op), list(dv.values()), role='obj')
    from sim.astx import names_in
    for cid, op in cons.items():
        names = sorted(names_in(op['e']))
        deps = [dv[n_] for n_ in names]
        lhs = op['e'][1]
        is_bound = (lhs[0] == 'v' or (lhs[0] == 'i' and lhs[1][0] == 'v')) and op['e'][2][0] == 'c' and op['e'][0] in ('<=', '>=', '==')
        s_c = add(dict(op), deps, role='bound' if is_bound else 'cons')
        if is_bound:
            add({'op': 'st', 'm': 'm', 'ids': [cid], 'aslist': True}, [s_c], role='bound', anchor=dv[names[0]])
        else:
            add({'op': 'st', 'm': 'm', 'ids': [cid], 'aslist': True}, [s_c], role='st')
    # piecewise-linear atoms (they allocate auxiliary columns even in the plain LP front end) and a late extra variable
    n_x = [o for o in prog['ops'] if o['op'] == 'dvar' and o['id'] == 'x'][0]['shape'][0]
    for k_ in range(rng.randint(1, 2)):
        at = rng.choice(['abs', 'n1', 'ninf'])
        xe = ['v', 'x']
        if at == 'abs':
            e = ['<=', ['f', 'abs', xe], ['c', [gen.r2(rng, 6, 9) for _ in range(n_x)]]]
        else:
            e = ['<=', ['norm', xe, 1 if at == 'n1' else 'inf'], ['c', gen.r2(rng, 12, 20)]]
        s_c = add({'op': 'cons', 'id': 'pw%d' % k_, 'e': e}, [dv['x']], role='cons')
        add({'op': 'st', 'm': 'm', 'ids': ['pw%d' % k_], 'aslist': True}, [s_c], role='st')
    if rng.random() < 0.6:
        vt = rng.choice(['C', 'C', 'I']) if cone != 'exp' else 'C'
        s_u = add({'op': 'dvar', 'id': 'u', 'm': 'm', 'shape': [rng.randint(1, 2)], 'vtype': vt}, [s_m], late=True)
        add({'op': 'cons', 'id': 'bu1', 'e': ['<=', ['v', 'u'], ['c', 5.0]]}, [s_u], late=True, role='bound')
        add({'op': 'cons', 'id': 'bu2', 'e': ['>=', ['v', 'u'], ['c', 0.0]]}, [s_u], late=True, role='bound')
        add({'op': 'st', 'm': 'm', 'ids': ['bu1', 'bu2'], 'aslist': True}, [steps[-2]['sid'], steps[-1]['sid']], late=True,
            role='bound', anchor=s_u)
        if vt != 'C':
            cls = 'MILP' if cone == 'lp' else 'MISOCP'
    ints = cls in ('MILP', 'MISOCP')
    return {'family': 'front-' + kind, 'model': 'm', 'cone': cone, 'ints': ints, 'zs': {}, 'steps': steps, 'expect': None,
            'xnames': ['x'], 'pool': solver_pool(cone, ints)}


FAMILIES = {'ro-sep': gen_ro_sep, 'dro-sep': gen_dro_sep, 'ro-gen': gen_ro_gen, 'dro-gen': gen_dro_gen, 'front': gen_front}


# ==================================================================================================
# schedules
# ==================================================================================================

def _solvable(done_steps, decl):
    """objective declared; every declared decision variable has all its bound steps executed; every declared
    ambiguity set has its support/probability steps executed (steps carry an 'anchor': once the anchor exists the
    step must have run before a solve event is meaningful)"""
    if not any(s.get('role') == 'obj' for s in done_steps):
        return False
    done = {s['sid'] for s in done_steps}
    for s in decl['steps']:
        if s['sid'] in done:
            continue
        if 'anchor' in s:
            if s['anchor'] in done:
                return False
        elif s.get('role') == 'bound':
            for d in _root_deps(decl, s):
                if d in done and _is_dvar(decl, d):
                    return False
    return True


def _by_sid(decl):
    return {s['sid']: s for s in decl['steps']}


def _is_dvar(decl, sid):
    return _by_sid(decl)[sid]['op']['op'] in ('dvar', 'ldr')


def _root_deps(decl, s):
    out, stack, by = set(), list(s['deps']), _by_sid(decl)
    while stack:
        d = stack.pop()
        if d in out:
            continue
        out.add(d)
        stack.extend(by[d]['deps'])
    return out


FAULTS_BY_ENGINE = {
    'def': [{'kind': 'status', 'status': 2, 'x': 'none'}, {'kind': 'status', 'status': 4, 'x': 'stale'},
            {'kind': 'status', 'status': 1, 'x': 'garbage'}, {'kind': 'raise', 'exc': 'MemoryError'}],
    'lpg': [{'kind': 'status', 'status': 3, 'x': 'none'}, {'kind': 'raise', 'exc': 'RuntimeError'}],
    'ort': [{'kind': 'status', 'status': 4}, {'kind': 'status', 'status': 6}, {'kind': 'status', 'status': 1},
            {'kind': 'none_solver'}, {'kind': 'raise', 'exc': 'RuntimeError'}],
    'grb': [{'kind': 'status', 'status': 3}, {'kind': 'status', 'status': 12}, {'kind': 'status', 'status': 9},
            {'kind': 'raise', 'exc': 'GurobiError'}, {'kind': 'raise', 'exc': 'KeyboardInterrupt'}],
    'eco': [{'kind': 'status', 'status': -2}, {'kind': 'status', 'status': 1}, {'kind': 'status', 'status': -7},
            {'kind': 'status', 'status': 2, 'x': 'garbage'}, {'kind': 'raise', 'exc': 'MemoryError'}],
}


def gen_noise(rng, decl, declared, n):
    """define-and-discard operations on objects that exist now: a throw-away robust constraint with some
    other set (biased to families whose atoms are kept in never-cleared lists)."""
    sh = [e for e in decl.get('shared', []) if e in declared]
    if sh and rng.random() < 0.5:
        # use an existing expression object inside an expectation / piecewise term and throw the result away
        e = rng.choice(sh)
        return [{'op': 'expr', 'id': 'junk%d' % n, 'env': 1, 'wrap': 1,
                 'e': rng.choice([['E', ['maxof', ['v', e], ['c', -100.0]]], ['E', ['minof', ['v', e], ['c', 100.0]]]])}]
    shz = [(e, zn) for e, zn in decl.get('shared_z', []) if e in declared]
    xs0 = [x for x in decl['xnames'] if x in declared]
    if shz and xs0 and rng.random() < 0.5:
        e, zn = rng.choice(shz)
        xe = ['v', xs0[0]] if xs0[0] != 'x' else ['i', ['v', 'x'], 0]
        zsz = {z_: k_ for z_, k_ in decl['zs'].items() if z_ in declared}
        blocks = gen.gen_set(rng, zsz, ['box', 'n1', 'ninf'])
        if rng.random() < 0.5:
            # the shared expression inside a set (as one more row of a throw-away uncertainty set)
            return [{'op': 'cons', 'id': 'noise%d' % n, 'e': ['<=', ['+', xe, ['v', e]], ['c', 7.0]], 'env': 1, 'wrap': 1},
                    {'op': 'forall', 'id': 'noise%d' % n, 'env': 1, 'blocks': blocks,
                     'set': ref.set_constraints(blocks, zsz) + [['<=', ['v', e], ['c', 100.0]]]}]
        # ... or inside a throw-away piecewise term
        return [{'op': 'expr', 'id': 'junk%d' % n, 'env': 1, 'wrap': 1, 'e': ['maxof', ['+', xe, ['v', e]], ['c', 0.0]]}]
    zs = {zn: k for zn, k in decl['zs'].items() if zn in declared}
    xs = [x for x in decl['xnames'] if x in declared]
    if not zs or not xs:
        return []
    cone = decl['cone']
    fams = ['pn', 'pow'] if cone != 'lp' and rng.random() < 0.6 else gen.fams_for(cone)
    blocks = gen.gen_set(rng, zs, fams)
    zn = sorted(zs)[0]
    xe = ['v', xs[0]] if xs[0] != 'x' else ['i', ['v', 'x'], 0]
    a = [gen.nz2(rng) for _ in range(zs[zn])]
    fa = {'op': 'forall', 'id': 'noise%d' % n, 'set': ref.set_constraints(blocks, zs), 'env': 1, 'blocks': blocks}
    if decl['family'].startswith('dro'):
        fa['aslist'] = True
    return [{'op': 'cons', 'id': 'noise%d' % n, 'e': ['<=', ['+', xe, ['@', ['c', a], ['v', zn]]], ['c', 7.0]], 'env': 1}, fa]


def gen_schedule(rng, decl, bias, cfg):
    order = gen.topo_order(rng, decl['steps'], bias)
    ops, done = [], []
    declared = set()
    pool = decl['pool']
    p_env = cfg.get('p_env', 0.35) if bias != 'canonical' else 0.0
    p_fault = cfg.get('p_fault', 0.25)
    nnoise = 0
    nev = 0
    formulated = False
    for st in order:
        if st.get('role') in ('prob', 'expt') and bias != 'canonical' and _solvable(done, decl) and rng.random() < 0.5:
            # a refinement of an ambiguity set that arrives after the model was already formulated / solved
            nev += 1
            ops.append(rng.choice([{'op': 'formulate', 'm': decl['model'], 'primal': True, 'env': 1},
                                   {'op': 'formulate', 'm': decl['model'], 'primal': False, 'env': 1},
                                   {'op': 'solve', 'm': decl['model'], 'solver': rng.choice(pool), 'env': 1, 'display': False}]))
        op = dict(st['op'])
        op['sid'] = st['sid']
        ops.append(op)
        done.append(st)
        if 'id' in op and op['op'] in ('dvar', 'rvar', 'ldr', 'expr'):
            declared.add(op['id'])
        while rng.random() < p_env and nev < cfg.get('max_env', 10):
            nev += 1
            m = decl['model']
            ok = _solvable(done, decl)
            kinds = ['noise', 'noise', 'gc', 'export']
            if ok:
                kinds += ['solve', 'solve', 'solve', 'formulate', 'dual']
                if not decl['family'].startswith('front') or decl['family'] == 'front-gcp':
                    kinds.append('soc_solve')          # lp.Model / socp.Model have no soc_solve
            k = rng.choice(kinds)
            if k == 'noise':
                nz = gen_noise(rng, decl, declared, nnoise)
                nnoise += 1
                ops.extend(nz)
            elif k == 'gc':
                ops.append({'op': 'gc', 'junk': rng.randint(0, 50), 'env': 1})
            elif k == 'export':
                if ok:
                    ops.append({'op': 'export', 'm': m, 'how': rng.choice(['show', 'lp_export', 'to_lp', 'repr']),
                                'primal': rng.random() < 0.8, 'env': 1})
                    if rng.random() < 0.3:
                        ops[-1]['fault'] = {'kind': 'export_io', 'how': rng.choice(['ENOSPC', 'EACCES', 'short'])}
            elif k == 'formulate':
                ops.append({'op': 'formulate', 'm': m, 'primal': True, 'env': 1})
            elif k == 'dual':
                ops.append({'op': 'formulate', 'm': m, 'primal': False, 'env': 1})
            elif k == 'soc_solve':
                sv = rng.choice([s for s in pool if s in ('eco', 'grb')] or pool)
                ops.append({'op': 'soc_solve', 'm': m, 'solver': sv, 'env': 1, 'display': False})
            else:
                sv = rng.choice(pool)
                o = {'op': 'solve', 'm': m, 'solver': sv, 'env': 1, 'display': rng.random() < 0.3}
                if rng.random() < p_fault:
                    f = dict(rng.choice(FAULTS_BY_ENGINE[sv]))
                    o['fault'] = f
                elif o['display'] and rng.random() < 0.2:
                    o['fault'] = {'kind': 'stdout_broken', 'nth': rng.randint(1, 3)}
                elif rng.random() < 0.1:
                    o['fault'] = {'kind': 'clock_step', 'steps': [rng.choice([-3600.0, 86400.0, -1e9])]}
                ops.append(o)
    # final healthy solve
    ops.append({'op': 'solve', 'm': decl['model'], 'solver': rng.choice(pool), 'env': 1, 'final': 1})
    return {'bias': bias, 'ops': ops}


def gen_case(seed, cfg):
    rng = random.Random(seed)
    fam = rng.choice(cfg.get('families', list(FAMILIES)))
    decl = FAMILIES[fam](rng, cfg)
    biases = ['reverse', 'uniform', 'uniform', 'late']
    rng.shuffle(biases)
    n = cfg.get('schedules', 3)
    scheds = [gen_schedule(random.Random(subseed(seed, 'sched', i)), decl, biases[i % 4], cfg) for i in range(n)]
    return {'family': fam, 'decl': decl, 'schedules': scheds, 'seed': seed,
            'canon_solver': rng.choice(decl['pool'])}


# ==================================================================================================
# execution + oracles
# ==================================================================================================

def canon_ops(decl, sids=None):
    ops = []
    for s in decl['steps']:
        if sids is None or s['sid'] in sids:
            op = dict(s['op'])
            op['sid'] = s['sid']
            ops.append(op)
    return ops


def close(a, b, tol):
    return abs(a - b) <= tol * (1.0 + abs(b))


def scratch(decl, sids, solver, soc=False):
    ops = canon_ops(decl, sids) + [{'op': 'soc_solve' if soc else 'solve', 'm': decl['model'], 'solver': solver}]
    it, w = interp.run_ops(ops)
    bad = [r for r in it.log[:-1] if not r['ok']]
    return it, it.log[-1], bad


def tags_of(ops):
    """hazard tags of an op list (pure function of the ops) - used for probes and known-finding matching"""
    tags = set()
    formulated = False
    soc_solved = False
    ipc_seen = False
    nsets = 0
    kind = None
    expr_built = False
    st_done = set()
    for op in ops:
        k = op['op']
        if k == 'model':
            kind = op.get('kind')
        if k in ('cons', 'obj', 'expr') and not op.get('env'):
            expr_built = True
        if k == 'dvar' and expr_built and kind == 'dro':
            tags.add('dro_dvar_after_expression')
        if k == 'expr' and op.get('wrap'):
            tags.add('shared_expr_wrapped_in_expectation')
        if k in ('forall', 'obj', 'supp') and ('set' in op):
            fams = {b['fam'] for b in op.get('blocks', [])}
            if ipc_seen:
                tags.add('set_after_ipc_set')
            if fams & set(ref.IPC_FAMS):
                ipc_seen = True
            nsets += 1
            if op.get('env') and k == 'forall':
                tags.add('noise_set')
        if k in ('formulate', 'solve', 'soc_solve', 'export'):
            formulated = True
        if k == 'soc_solve':
            soc_solved = True
        if k == 'solve' and soc_solved:
            tags.add('solve_after_soc_solve')
        if k == 'formulate' and not op.get('primal', True):
            tags.add('dual_formulated')
        if k in ('prob', 'expt') and formulated:
            tags.add('ambiguity_refined_after_formulation')
        if k == 'dvar' and formulated:
            tags.add('dvar_after_formulation')
            if op.get('vtype', 'C') != 'C':
                tags.add('int_dvar_after_formulation')
        if k == 'rvar' and formulated:
            tags.add('rvar_after_formulation')
        if k == 'st' and formulated:
            tags.add('constraint_after_formulation')
        if k == 'st':
            st_done.update(op.get('ids', []))
        if k == 'forall' and op.get('id') in st_done and not op.get('env'):
            tags.add('set_attached_after_st')
        if k in ('solve', 'soc_solve') and op.get('fault'):
            tags.add('fault_' + op['fault']['kind'])
        if k == 'solve' and op.get('solver', 'def') in ('def', 'lpg'):
            tags.add('default_solver')
        if k == 'dvar' and op.get('vtype') == 'B':
            tags.add('binary_var')
    return sorted(tags)


ENGINE_OF = {'def': 'scipy', 'lpg': 'scipy', 'ort': 'ortools', 'grb': 'gurobi', 'eco': 'ecos'}


def engine_at_fault(it, mname, sv, tol):
    """True iff the engine, called directly on the live compiled program through an independent translation, returns
    the same value it returned through RSOME's interface - then a mismatch seen by an oracle is the engine's own
    (e.g. the HiGHS presolve defect on small MILPs), which is inconclusive, never a violation."""
    try:
        from machines.peer import snapshot
        m = it.env[mname]
        sol = m.solution
        snap = snapshot(m.do_math())
        d = direct.DIRECT[ENGINE_OF[sv]](snap)
        if d is None or sol is None:
            return False
        # the direct value is trusted only if a second engine confirms that the first one is off
        others = [e for e in ('gurobi', 'ortools', 'scipy', 'ecos') if e != ENGINE_OF[sv]]
        for e in others:
            try:
                d2 = direct.DIRECT[e](snap)
            except Exception:
                d2 = None
            if d2 is not None:
                same_as_iface = abs(d - float(sol.objval)) <= tol * (1 + abs(d))
                engines_differ = abs(d2 - d) > tol * (1 + abs(d))
                return same_as_iface and engines_differ
        return False
    except Exception:
        return False


def engine_refuses_solvable(it, mname, sv):
    """True iff the engine behind `sv`, called DIRECTLY on the compiled program of this build, does not report an optimum
    although another engine solves the very same snapshot: the refusal is then the engine's own (seen: HiGHS presolve
    declaring a feasible MILP infeasible for one row order), not something RSOME's build history did."""
    try:
        from machines.peer import snapshot
        snap = snapshot(it.env[mname].do_math())
        if direct.DIRECT[ENGINE_OF[sv]](snap) is not None:
            return False
        for e in ('gurobi', 'ortools', 'scipy', 'ecos'):
            if e == ENGINE_OF[sv]:
                continue
            try:
                if direct.DIRECT[e](snap) is not None:
                    return True
            except Exception:
                pass
        return False
    except Exception:
        return False


def check_case(case, props):
    decl = case['decl']
    fam = case['family']
    tol = TOL[decl['cone']]
    if decl.get('ints'):
        tol = max(tol, 3e-4)          # the engines' default relative MIP gap is 1e-4: two correct answers may differ by that much
    viols = []
    stats = {'runs': 1, 'schedules': 0, 'events': 0, 'solves_healthy': {}, 'solves_faulted': {},
             'faults_fired': {}, 'probes': {}, 'inconclusive': {}, 'sim_seconds': 0.0, 'l3_checks': 0,
             'l1_checks': 0, 'l2_checks': 0, 'nontrivial_sigs': [], 'schedule_sigs': [], 'states': [],
             'families': {fam + '/' + decl['cone']: 1}}

    def viol(oracle, detail, ops=None, exc=None, sched=None):
        tags = tags_of(ops) if ops is not None else []
        sig = 'C09|%s|%s|%s' % (oracle, fam.split('-')[0], exc or '')
        viols.append({'prop': 'C09', 'oracle': oracle, 'sig': sig, 'detail': detail, 'tags': tags,
                      'exc': exc or '', 'sched': sched})

    def inconc(why):
        stats['inconclusive'][why] = stats['inconclusive'].get(why, 0) + 1

    # ---- reference: from-scratch canonical build ------------------------------------------------
    it0, r0, bad0 = scratch(decl, None, case['canon_solver'])
    if bad0:
        inconc('canonical_build_raises:' + ':'.join(bad0[0].get('exc', ['?'])))
        return {'violations': viols, 'stats': stats}
    if not r0['ok']:
        # arbiter (as in M-PEER / M-DET): the engine called directly on a snapshot of the compiled program through the
        # independent translation raises as well -> the refusal is the engine's own (seen: ECOS cannot set up a program
        # that has a row without variables); nothing about build history can be judged on such a program
        try:
            from machines.peer import snapshot
            snap_ = snapshot(it0.env[decl['model']].do_math())
            try:
                direct.DIRECT[ENGINE_OF[case['canon_solver']]](snap_)
                engine_raises = False
            except Exception:
                engine_raises = True
        except Exception:
            engine_raises = False
        if engine_raises:
            inconc('engine_itself_raises:' + case['canon_solver'])
            return {'violations': viols, 'stats': stats}
        viol('L0-canonical-solve-raises', 'canonical build: solve raised %s' % (r0.get('exc'),),
             canon_ops(decl), exc=':'.join(r0.get('exc', [])))
        return {'violations': viols, 'stats': stats}
    out0 = r0['out']
    nosol = bool(decl.get('expect_nosol'))
    if nosol:
        # by construction no robust solution exists (a random variable is unrestricted in the set applied to a row that uses
        # it): every build, in every order, has to say so
        stats['l1_checks'] += 1
        if out0['sol'] == 'opt':
            viol('L1-status', 'canonical build reports the optimum %.9g although a random variable is unrestricted in the set '
                 'applied to a row that uses it' % out0['obj'], canon_ops(decl))
            return {'violations': viols, 'stats': stats}
        if out0['sol'] == 'inconclusive':
            inconc('engine_limit:%s' % out0.get('status'))
            return {'violations': viols, 'stats': stats}
    elif out0['sol'] != 'opt':
        inconc('canonical_not_optimal:%s:%s' % (case['canon_solver'], out0.get('status')))
        return {'violations': viols, 'stats': stats}

    # ---- L1: closed form ---------------------------------------------------------------------
    if decl.get('expect') and 'opt' in decl['expect']:
        stats['l1_checks'] += 1
        if not close(out0['obj'], decl['expect']['opt'], tol * 10):
            viol('L1-objective', 'canonical build: optimum %.9g, closed form for the declared partitions/masks %.9g'
                 % (out0['obj'], decl['expect']['opt']), canon_ops(decl))
    if fam.endswith('-sep') and not nosol:
        stats['l1_checks'] += 1
        exp_x = decl['expect']['x']
        exp_obj = decl['expect']['obj'] if 'obj' in decl['expect'] else sum(exp_x) + decl['expect']['obj_const']
        if not close(out0['obj'], exp_obj, tol) and engine_at_fault(it0, decl['model'], case['canon_solver'], tol):
            inconc('engine_defect:' + case['canon_solver'])
            return {'violations': viols, 'stats': stats}
        if not close(out0['obj'], exp_obj, tol):
            viol('L1-objective', 'canonical build: optimum %.9g, closed form of the attached sets %.9g'
                 % (out0['obj'], exp_obj), canon_ops(decl))
        elif not decl['expect'].get('xs'):
            # (with event-wise decisions only the objective is pinned down: a scenario that does not attain the worst case,
            #  or gets probability zero in the worst-case distribution, may carry any smaller value)
            got = _read_x(it0, decl)
            for k, (g, e) in enumerate(zip(got, exp_x)):
                if not close(g, e, tol * 5):
                    viol('L1-solution', 'canonical build: x[%d]=%.9g, closed form for its attached set %.9g' % (k, g, e),
                         canon_ops(decl))
                    break

    # ---- schedules ---------------------------------------------------------------------------
    for si, sch in enumerate(case['schedules']):
        stats['schedules'] += 1
        ops = sch['ops']
        tg = tags_of(ops)
        for t in tg:
            stats['probes'][t] = stats['probes'].get(t, 0) + 1
        done_sids = []
        executed = []
        aborted = False
        healthy_solves = 0
        nfault = 0

        def on(op, rec):
            return False

        rs = interp.RS.get()
        from sim import world as W
        w = W.World()
        it = interp.Interp(rs, w)
        with W.Bound(w, rs):
            for op in ops:
                rec = it.step(op)
                executed.append(op)
                stats['events'] += 1
                k = op['op']
                if 'sid' in op:
                    if not rec['ok']:
                        viol('L2-declaration-raises',
                             'step %s (%s) raised %s under schedule #%d (%s) but not in canonical order: %s'
                             % (op['sid'], k, rec['exc'], si, sch['bias'], rec.get('msg')),
                             executed, exc=':'.join(rec['exc']), sched=si)
                        aborted = True
                        break
                    done_sids.append(op['sid'])
                    continue
                if k in ('solve', 'soc_solve'):
                    f = op.get('fault')
                    eng = op.get('solver', 'def')
                    engine_fault = f and f['kind'] in ('status', 'raise', 'none_solver')
                    if engine_fault:
                        nfault += 1
                        stats['solves_faulted'][eng] = stats['solves_faulted'].get(eng, 0) + 1
                        # a faulted solve must not claim a solution (C11 decides that; here only bookkeeping)
                        continue
                    if not rec['ok']:
                        if f:      # stdout broken / clock step: the call may raise, state must stay usable
                            continue
                        _its, r_chk, bad_chk = scratch(decl, set(done_sids), eng, soc=(k == 'soc_solve'))
                        if not bad_chk and not r_chk['ok'] and r_chk.get('exc', [''])[0] == rec['exc'][0]:
                            inconc('prefix_not_solvable:' + rec['exc'][0])     # the declared prefix fails from scratch as well
                            continue
                        viol('L3-solve-raises', '%s with %s raised %s under schedule #%d after %d steps: %s'
                             % (k, eng, rec['exc'], si, len(done_sids), rec.get('msg')), executed,
                             exc=':'.join(rec['exc']), sched=si)
                        aborted = True
                        break
                    out = rec['out']
                    stats['solves_healthy'][eng] = stats['solves_healthy'].get(eng, 0) + 1
                    # L3: same prefix built from scratch, same engine, same call
                    it_s, r_s, bad_s = scratch(decl, set(done_sids), eng, soc=(k == 'soc_solve'))
                    if bad_s or not r_s['ok']:
                        inconc('scratch_prefix_raises')
                        continue
                    outs = r_s['out']
                    stats['l3_checks'] += 1
                    if 'inconclusive' in (out['sol'], outs['sol']):
                        inconc('engine_limit:%s' % (out.get('status') or outs.get('status')))
                        continue
                    if out['sol'] != outs['sol']:
                        if 'opt' in (out['sol'], outs['sol']) and _soft(out, outs):
                            inconc('soft_failure:' + eng)
                            continue
                        if k == 'solve' and 'opt' in (out['sol'], outs['sol']) and \
                                engine_refuses_solvable(it if out['sol'] != 'opt' else it_s, decl['model'], eng):
                            inconc('engine_defect_status:' + eng)
                            continue
                        viol('L3-status', '%s(%s) after %d steps of schedule #%d: incremental %s vs from-scratch %s'
                             % (k, eng, len(done_sids), si, _brief(out), _brief(outs)), executed, sched=si)
                        aborted = True
                        break
                    if out['sol'] == 'opt' and nosol and op.get('final'):
                        viol('L2-status', '%s(%s) after %d steps of schedule #%d reports the optimum %.9g; no robust solution exists '
                             '(a random variable is unrestricted in the set applied to a row that uses it)'
                             % (k, eng, len(done_sids), si, out['obj']), executed, sched=si)
                        aborted = True
                        break
                    if out['sol'] == 'opt':
                        healthy_solves += 1
                        t3 = tol if k == 'solve' else max(tol, 2e-3)
                        if not close(out['obj'], outs['obj'], t3) and \
                                (engine_at_fault(it, decl['model'], eng, tol) or engine_at_fault(it_s, decl['model'], eng, tol)):
                            inconc('engine_defect:' + eng)
                        elif not close(out['obj'], outs['obj'], t3):
                            viol('L3-objective', '%s(%s) after %d steps of schedule #%d: incremental %.9g vs '
                                 'from-scratch build of the same declared prefix %.9g'
                                 % (k, eng, len(done_sids), si, out['obj'], outs['obj']), executed, sched=si)
                            aborted = True
                            break
                        if op.get('final'):
                            stats['l2_checks'] += 1
                            if not close(out['obj'], out0['obj'], max(tol, TOL['lp'])) and \
                                    (engine_at_fault(it, decl['model'], eng, tol) or
                                     engine_at_fault(it0, decl['model'], case['canon_solver'], tol)):
                                inconc('engine_defect:' + eng + '/' + case['canon_solver'])
                            elif not close(out['obj'], out0['obj'], max(tol, TOL['lp'])):
                                viol('L2-objective', 'schedule #%d (%s) ends in %.9g, canonical build %.9g'
                                     % (si, sch['bias'], out['obj'], out0['obj']), executed, sched=si)
                            elif fam.endswith('-sep') and not decl['expect'].get('xs'):
                                got = _read_x(it, decl)
                                for kk, (g, e) in enumerate(zip(got, decl['expect']['x'])):
                                    if not close(g, e, tol * 5):
                                        viol('L1-solution', 'schedule #%d: x[%d]=%.9g, closed form for its '
                                             'attached set %.9g' % (si, kk, g, e), executed, sched=si)
                                        break
                elif not rec['ok'] and not op.get('fault'):
                    viol('L2-event-raises', 'environment event %s raised %s under schedule #%d: %s'
                         % (k, rec['exc'], si, rec.get('msg')), executed, exc=':'.join(rec['exc']), sched=si)
                    aborted = True
                    break
        for kk, vv in w.fired.items():
            stats['faults_fired'][kk] = stats['faults_fired'].get(kk, 0) + vv
        stats['sim_seconds'] += w.simulated_seconds
        order_sig = digest([fam] + [(_norm(op)) for op in ops])
        stats['schedule_sigs'].append(order_sig)
        canon = [s['sid'] for s in decl['steps']]
        if done_sids != canon[:len(done_sids)] and healthy_solves and tg:
            stats['nontrivial_sigs'].append(order_sig)
        stats['states'].append(digest([fam, sorted(done_sids)[-3:], tg, healthy_solves > 0, nfault > 0]))
    return {'violations': viols, 'stats': stats}


def _norm(op):
    return [op['op'], op.get('sid', ''), op.get('solver', ''), (op.get('fault') or {}).get('kind', '')]


def _brief(o):
    return '%s/%s/%s' % (o.get('sol'), o.get('status'), o.get('obj'))


def _soft(a, b):
    """one side optimal, the other a numerical soft failure of a healthy engine"""
    for o in (a, b):
        st = str(o.get('status', ''))
        if o['sol'] == 'nosol' and (st in ('1', '4') or 'inacc' in st.lower() or 'max' in st.lower()
                                    or 'numer' in st.lower() or 'Unreliable' in st):
            return True
    return False


def _read_x(it, decl):
    """values of the probe decisions; for an event-wise decision the value in the scenario where the closed form expects
    the largest deviation is not known here, so the per-scenario values are compared entry by entry instead (xs)"""
    import pandas as pd
    vals = []
    xs_exp = decl['expect'].get('xs', {}) if decl.get('expect') else {}
    k = 0
    for n in decl['xnames']:
        v = it.env[n]()
        if isinstance(v, pd.Series):
            rows = [float(np.asarray(r).reshape(-1)[0]) for r in v.values]
            exp_rows = xs_exp.get(k) or xs_exp.get(str(k))
            if exp_rows is not None:
                # report the first scenario whose value deviates (or scenario 0), shifted onto the scalar reference
                dev = [abs(g - e) for g, e in zip(rows, exp_rows)]
                j = max(range(len(dev)), key=lambda i_: dev[i_])
                vals.append(decl['expect']['x'][k] + (rows[j] - exp_rows[j]))
            else:
                vals.append(rows[0])
            k += 1
            continue
        try:
            arr = [float(x) for x in np.asarray(v, float).reshape(-1)]
        except TypeError:
            arr = [float(v)]
        if len(arr) == 1 and (xs_exp.get(k) or xs_exp.get(str(k))):
            exp_rows = xs_exp.get(k) or xs_exp.get(str(k))
            # declared event-wise but a single value came back: compare with the scenario-0 closed form
            vals.append(decl['expect']['x'][k] + (arr[0] - exp_rows[0]))
            k += 1
            continue
        vals.extend(arr)
        k += len(arr)
    return vals


def sample_of(case):
    return {'family': case['family'], 'cone': case['decl']['cone'],
            'schedule0': [_norm(op) for op in case['schedules'][0]['ops']]}


# ==================================================================================================
# shrinking
# ==================================================================================================

def shrink_candidates(case, viol):
    """smaller cases: keep only the failing schedule; drop env events; drop faults; drop constraints of D."""
    si = viol.get('sched')
    if si is not None and len(case['schedules']) > 1:
        c = copy.deepcopy(case)
        c['schedules'] = [c['schedules'][si]]
        yield c
        return
    if si is None and case['schedules']:
        c = copy.deepcopy(case)
        c['schedules'] = []
        yield c
    for s_idx, sch in enumerate(case['schedules']):
        ops = sch['ops']
        # drop chunks of environment events
        env_idx = [i for i, op in enumerate(ops) if op.get('env') and not op.get('final')]
        for chunk in (8, 4, 2, 1):
            for st in range(0, len(env_idx), chunk):
                drop = set(env_idx[st:st + chunk])
                if not drop:
                    continue
                c = copy.deepcopy(case)
                c['schedules'][s_idx]['ops'] = [op for i, op in enumerate(ops) if i not in drop]
                yield c
        # drop faults
        for i, op in enumerate(ops):
            if op.get('fault'):
                c = copy.deepcopy(case)
                del c['schedules'][s_idx]['ops'][i]['fault']
                yield c
        # truncate after the failing point is handled by env dropping; move towards canonical order
        canon = [s['sid'] for s in case['decl']['steps']]
        decl_pos = [i for i, op in enumerate(ops) if 'sid' in op]
        cur = [ops[i]['sid'] for i in decl_pos]
        if cur != [s for s in canon if s in cur]:
            # swap one adjacent out-of-order pair where legal
            by = {s['sid']: s for s in case['decl']['steps']}
            for j in range(len(decl_pos) - 1):
                a, b = ops[decl_pos[j]], ops[decl_pos[j + 1]]
                if canon.index(a['sid']) > canon.index(b['sid']) and b['sid'] not in _root_deps(case['decl'], by[a['sid']]) \
                        and a['sid'] not in by[b['sid']]['deps']:
                    c = copy.deepcopy(case)
                    o = c['schedules'][s_idx]['ops']
                    o[decl_pos[j]], o[decl_pos[j + 1]] = o[decl_pos[j + 1]], o[decl_pos[j]]
                    yield c
    # drop declared steps nobody depends on (constraints, late variables) from D and from every schedule
    decl = case['decl']
    needed = set()
    for s in decl['steps']:
        needed.update(s['deps'])
    for s in reversed(decl['steps']):
        if s['sid'] in needed or s.get('role') in ('obj',) or s['op']['op'] == 'model':
            continue
        c = copy.deepcopy(case)
        c['decl']['steps'] = [t for t in c['decl']['steps'] if t['sid'] != s['sid']]
        for sch in c['schedules']:
            sch['ops'] = [op for op in sch['ops'] if op.get('sid') != s['sid']]
        # expected closed form no longer applies to a reduced model: switch L1 off
        c['family'] = c['family'].replace('-sep', '-red')
        yield c
