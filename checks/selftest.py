"""Determinism self-test of the simulator: every seed is one exactly repeatable execution.

For each machine: N seeds are generated and checked (a) twice in this process, (b) on a 16-worker fork pool,
(c) in fresh interpreters under two other PYTHONHASHSEED values; the digests of (case, violations, statistics,
per-op outcome traces) must be identical.  Usage: ./check selftest [N]
"""
import os
import sys
import json
import importlib
import subprocess
from concurrent.futures import ProcessPoolExecutor
import multiprocessing as mp

HERE = os.path.dirname(os.path.dirname(os.path.abspath(__file__)))
MACHINES = ['machines.hist', 'machines.part', 'machines.peer', 'machines.multi', 'machines.det']


def one(args):
    mod_name, seed = args
    from sim.runner import digest, subseed, _worker_init
    mod = importlib.import_module(mod_name)
    rseed = subseed(424242, mod.NAME, seed)
    case = mod.gen_case(rseed, {})
    res = mod.check_case(case, mod.PROPS)
    return digest(case), digest([[v['sig'], v['detail']] for v in res['violations']]), digest(res['stats'])


def emit(mod_name, n, pool):
    if pool:
        from sim.runner import _worker_init
        ctx = mp.get_context('fork')
        with ProcessPoolExecutor(max_workers=pool, mp_context=ctx, initializer=_worker_init) as ex:
            out = list(ex.map(one, [(mod_name, s) for s in range(n)]))
    else:
        out = [one((mod_name, s)) for s in range(n)]
    proto.write(json.dumps(out) + '\n')


def child(mod_name, n, hashseed, pool=0):
    env = dict(os.environ, PYTHONHASHSEED=str(hashseed))
    p = subprocess.run([sys.executable, '-m', 'checks.selftest', '--emit', mod_name, str(n), str(pool)], cwd=HERE, env=env,
                       capture_output=True, text=True, timeout=1500)
    try:
        return [tuple(x) for x in json.loads(p.stdout.strip().splitlines()[-1])]
    except Exception:
        return 'child failed: ' + p.stderr[-500:]


def main():
    """the parent never imports RSOME or an engine (forking after engine threads exist can deadlock)"""
    n = int(sys.argv[2]) if len(sys.argv) > 2 else 24
    bad = 0
    for mod_name in (os.environ.get('VERIF_SELFTEST_MACHINES', '').split(',') if os.environ.get('VERIF_SELFTEST_MACHINES') else MACHINES):
        a = child(mod_name, n, 0)
        outs = {'fresh-interpreter-again': child(mod_name, n, 0),
                'pool-16-workers': child(mod_name, n, 0, 16),
                'pool-3-workers': child(mod_name, n, 0, 3),
                'fresh-interpreter-hashseed-1': child(mod_name, n, 1),
                'fresh-interpreter-hashseed-987654': child(mod_name, n, 987654, 5)}
        if isinstance(a, str):
            print('HARNESS-ERROR baseline child failed for %s: %s' % (mod_name, a))
            bad += 1
            continue
        for k, v in outs.items():
            if v != a:
                bad += 1
                diffs = v if isinstance(v, str) else [i for i in range(n) if v[i] != a[i]]
                print('NONDETERMINISTIC %s %s: seeds %s' % (mod_name, k, diffs))
            else:
                print('deterministic  %s %s (%d seeds)' % (mod_name, k, n))
        sys.stdout.flush()
    print('selftest: %d divergences' % bad)
    return 1 if bad else 0


if __name__ == '__main__':
    sys.path.insert(0, HERE)
    if len(sys.argv) > 1 and sys.argv[1] == '--emit':
        proto = os.fdopen(os.dup(1), 'w')
        dn = os.open(os.devnull, os.O_WRONLY)
        os.dup2(dn, 1)
        os.dup2(dn, 2)
        sys.stdout = open(os.devnull, 'w')
        emit(sys.argv[2], int(sys.argv[3]), int(sys.argv[4]) if len(sys.argv) > 4 else 0)
        proto.flush()
        sys.exit(0)
    sys.exit(main())
