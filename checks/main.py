"""./check <property> [--tier quick|thorough] [--runs N] [--replay file]"""
import os
import sys
import argparse


PLAN = {
    # property: (machine module, runs quick, runs thorough, cfg)
    'C09': ('machines.hist', 400, 20000, {}),
    'C11': ('machines.peer', 600, 20000, {}),
    'C17': ('machines.multi', 1400, 40000, {}),
    'C19': ('machines.det', 400, 30000, {}),
    'C13': ('machines.part', 3000, 200000, {}),
    'C12': ('machines.part', 3000, 200000, {}),
}


def main():
    ap = argparse.ArgumentParser()
    ap.add_argument('prop')
    ap.add_argument('--tier', default=os.environ.get('VERIF_TIER', 'quick'))
    ap.add_argument('--runs', type=int, default=None)
    ap.add_argument('--replay', default=None)
    a = ap.parse_args()
    sys.path.insert(0, os.path.dirname(os.path.dirname(os.path.abspath(__file__))))
    if a.prop == 'selftest':
        from checks import selftest
        sys.argv = ['selftest', 'x'] + ([str(a.runs)] if a.runs else [])
        return selftest.main()
    from sim import runner
    if a.replay:
        return runner.main_replay(a.replay)
    mod, nq, nt, cfg = PLAN[a.prop]
    seed = int(os.environ.get('VERIF_SEED', '20260929'))
    n = a.runs or (nq if a.tier == 'quick' else nt)
    return runner.run_batch(mod, a.prop, a.tier, seed, n, cfg=cfg,
                            wall_cap=900 if a.tier == 'quick' else 4 * 3600)


if __name__ == '__main__':
    sys.exit(main())
