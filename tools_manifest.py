"""Regenerates MANIFEST.json from one table (keeps it valid at all times)."""
import json

NA = {
 'C01': 'pure function of the declared program and of a mathematically quantified realisation z; no schedule, clock, peer fault or ambient state to simulate (needs an independent worst-case oracle, not a scheduler)',
 'C02': 'exactness of the robust counterpart is a pure function of the declared program; needs an independent semi-infinite solver, nothing for a simulator to schedule or fault',
 'C03': 'quantifies over distributions in an ambiguity set, not over histories, schedules or faults; pure function of the declared program',
 'C04': 'dro exactness needs an independent moment-problem solver; no schedule/fault/ambient dimension',
 'C05': 'array algebra vs NumPy is a pure function of operand shapes and values',
 'C06': 'every accepted constraint enforced as written: pure function of the declared program',
 'C07': 'deterministic optimum / exactness of atom encodings: pure function over a parameter space of cone towers',
 'C08': 'do_math(primal=False) being a true dual is a pure function of the standard form',
 'C10': 'convexity acceptance rules are a pure function of an expression chain',
 'C14': 'dual() shadow prices are a pure function of program and interface',
 'C15': 'metamorphic rewrites of the input; its only schedule-like clause (order of declarations) is decided under C09',
 'C16': 'exports are a pure function of the formula; the single file write has no fault clause in the property',
 'C18': 'soc_solve accuracy is a pure numerical property; its changes-nothing-else clause is exercised as history under C09/C19',
}

CHECKS = {
 'C11': dict(machine='M-PEER', level='fault_enumeration', design='3/C11',
   text='Solver engines run as peers behind pass-through proxies. For every generated program (LP, MILP with user bounds on '
        'binaries/integers, SOCP, MISOCP, exp-cone; feasible/infeasible/unbounded) every capable interface is called with random '
        'display/log settings (solve and soc_solve, with and without Gurobi parameters) and EVERY documented failure return of its engine (complete table per engine: HiGHS status 1-4 x '
        '{no x, stale x, garbage x}, ECOS exit flags, OR-Tools result codes and missing solver, Gurobi statuses with and without '
        'incumbent, engine exceptions) is injected once, plus stdout and clock faults. Failed calls must report no solution '
        '(get/read-back raise, optimal() False, no new solution after an exception); healthy calls must agree across interfaces and '
        'satisfy the pre-solve snapshot of the compiled program (bounds, senses, cones, integrality); the call after a failure must be '
        'right again. The failure table is enumerated completely per program; programs are sampled.',
   note='Trusted: healthy engines (their agreement is the cross-check), faithfulness of the stubbed failure returns to the engine '
        'APIs (one of them, Gurobi stopping at SOLUTION_LIMIT with an incumbent, is also reproduced with the real engine). Not '
        'exercised: clp/cpx/msk/cpt interfaces (engines not installed), LMI programs, ECOS_BB on integer programs.',
   technique='deterministic simulation with fault enumeration: real engines behind proxies, every documented failure return injected per interface'),
 'C17': dict(machine='M-MULTI', level='exploration', design='3/C17',
   text='2-3 declared models (ro, dro, deterministic ro programs, lp front end; any mix) are built by interleaved tasks under one '
        'seeded scheduler, with solve events (and engine faults) on completed models in between. Interference mode: every model '
        'must give the result of the same declared model built alone, computed before and after the interleaved run. Misuse mode: 30 '
        'kinds of misuse (cross-model st/operands/sets/ambiguity sets/adaptation, second objective in every pairing, non-scalar '
        'objective, read-back of unsolved and failed models, ambiguity() after constraints) are injected at random points on objects '
        'that exist at that instant and must raise at that call.',
   note='Trusted: engines on healthy calls. The state of a model after a REJECTED call is recorded as an observation, not judged. '
        'Bounds: <=3 models, <=8 misuse operations per run.',
   technique='deterministic simulation: seeded interleaving of model-building tasks with injected misuse operations and isolated-build reference'),
 'C19': dict(machine='M-DET', level='exploration', design='3/C19',
   text='The same explicit op list is executed in 7 worlds that differ only in ambient state: fresh interpreters with other '
        'PYTHONHASHSEED values, global RNG states (seeded and pre-consumed), clock epoch, GC disabled vs collect-with-junk between '
        'ops, worker thread vs main thread (all compared bit-wise on primal and dual standard forms), and other memory layouts of the '
        'user arrays (F-order, strided views, read-only, int64; compared structurally and to 1e-12). RNG states must be untouched, '
        'every user array byte-identical after every op, per-op outcomes identical; a seeded repetition sequence of do_math '
        '(primal/dual), solve, soc_solve, export and FAILED solves (engine faults, clock jumps) must leave the cached forms unchanged '
        'and return the same answers; a seventh world formulates the dual before the primal; exports and dual() queries are part of the repetition sequences.',
   note='Trusted: the digest covers linear/const/sense/vtype/ub/lb/obj/qmat/xmat; numpy products of user data are not layout-invariant to the '
        'last bit, hence the 1e-12 comparison for layout worlds only. float32 user data is not compared.',
   technique='deterministic simulation: identical op list replayed across controlled ambient worlds (hash seed, RNG, clock, GC, thread, array layout) plus seeded repetition/fault sequences'),
 'C13': dict(machine='M-PART', level='exploration', design='3/C13',
   text='Seeded search over adaptation histories: sequences of event-wise and affine adapt() calls (whole decisions and slices, '
        'random scenario labellings, interleaved with other declarations) build partitions and dependency masks; a closed-form '
        'optimum that decodes the partition/mask actually enforced, non-anticipativity of per-scenario values, NaN on undeclared '
        'components and a direct reference LP for expressions mixing two partitions decide whether dependence is exactly as declared; '
        'every illegal declaration kind is injected after a random legal prefix and must raise.',
   note='Trusted: engines on healthy calls; uniqueness argument of the closed forms (generic radii/probabilities/weights). Bounds: '
        '<=5 scenarios, <=3 decision entries, <=4 random components.',
   technique='deterministic simulation: seeded adapt()-history search with a reference partition/mask model and decoding closed forms'),
 'C12': dict(machine='M-PART', level='exploration', design='3/C12',
   text='Same histories as C13 plus failed-then-healthy solve sequences: model.get() in user sense, x.get() per label and shape, '
        'x.get(z) coefficients/NaN, x() vs x.get(), affine and bi-affine expression evaluation at assigned realisations are compared '
        'with closed forms per scenario label; after an injected solver failure every query must raise. Only the history-dependent '
        'read-back map is decided; evaluation of every convex atom is a pure function and is covered only for the atoms used here. A grow-then-fail phase checks that no query mixes numbers of two different solves.',
   note='Trusted: closed forms, engines on healthy calls. Convex-atom evaluation beyond affine/bi-affine is out of scope (pure function).',
   technique='deterministic simulation: read-back checked against per-label closed forms after seeded adapt/solve/fault histories'),
 'C09': dict(machine='M-HIST', level='exploration', design='3/C09',
   text='Seeded search over build histories: one declared model is executed under random linear extensions of its step DAG '
        'with formulate/dual/solve/soc_solve/export/define-and-discard events and engine faults in between; every schedule must '
        'end in the from-scratch result (L2), every intermediate healthy solve must equal a from-scratch build of the declared '
        'prefix (L3), and separable probe models must match the closed-form support functions of the attached sets (L1). '
        'Sampling, not proof: a clean batch is evidence for the explored families/bounds only.',
   note='Trusted: the solver engines on healthy calls, the closed forms in sim/ref.py (self-validated against isolated '
        'single-set models), interleaving at API-call granularity. Bounds: <=4 probe constraints, <=7 random components, <=10 '
        'environment events and <=3 schedules per declared model.',
   technique='deterministic simulation: seeded schedule/fault search over API-call histories with reference-model and differential oracles'),
}


def build():
    checks = []
    for pid, c in sorted(CHECKS.items()):
        checks.append({
            'property_id': pid,
            'quick_cmd': './check %s --tier quick' % pid,
            'thorough_cmd': './check %s --tier thorough' % pid,
            'evidence_file': 'evidence/%s.json' % pid,
            'replay_cmd_template': './check %s --replay {path}' % pid,
            'engine': c['machine'],
            'level_claimed': {'category': c['level'], 'text': c['text'], 'design_ref': c['design']},
            'level_note': c['note'],
            'technique': c['technique'],
        })
    na = [{'property_id': k, 'reason': v} for k, v in sorted(NA.items())]
    for pid in ['C09', 'C11', 'C12', 'C13', 'C17', 'C19']:
        if pid not in CHECKS:
            na.append({'property_id': pid, 'reason': 'check under construction in this session (designed in DESIGN.md section 3); not claimed until its machine is committed'})
    na.sort(key=lambda d: d['property_id'])
    man = {
        'version': 1,
        'setup_cmd': '/venv/bin/python -c "import rsome, numpy, scipy, ecos, gurobipy, ortools; print(rsome.__file__)"',
        'hooks': {
            'guard': 'RSOME_VERIF',
            'enable': 'no hook inside /repo is needed: every seam (engines, clock, stdout, file) is a module attribute patched from /verif/sim/world.py; RSOME_VERIF is reserved and unused',
            'baseline_off_cmd': 'cd /repo && /venv/bin/python -m pytest -ra -q -p no:cacheprovider --timeout=900 --continue-on-collection-errors',
            'source_commits': [],
            'add_only': True,
        },
        'engines': [
            {'name': 'M-HIST', 'path': 'machines/hist.py', 'serves_properties': ['C09'], 'kind_free_text': 'build-history simulator (schedules + engine faults)'},
            {'name': 'M-PEER', 'path': 'machines/peer.py', 'serves_properties': ['C11'], 'kind_free_text': 'solver engines as faulty peers behind pass-through proxies'},
            {'name': 'M-MULTI', 'path': 'machines/multi.py', 'serves_properties': ['C17'], 'kind_free_text': 'interleaved multi-model builder with misuse injection'},
            {'name': 'M-DET', 'path': 'machines/det.py', 'serves_properties': ['C19'], 'kind_free_text': 'ambient-world replayer (hash seed, RNG, clock, GC, thread, array layout) and repetition sequences'},
            {'name': 'M-PART', 'path': 'machines/part.py', 'serves_properties': ['C12', 'C13'], 'kind_free_text': 'adaptation-history simulator (partitions, dependency masks, read-back)'},
        ],
        'checks': checks,
        'not_applicable': na,
        'notes': 'Technique family: deterministic simulation with fault injection. See DESIGN.md.',
    }
    with open('MANIFEST.json', 'w') as f:
        json.dump(man, f, indent=1)


if __name__ == '__main__':
    build()
