#!/bin/sh
# Re-run the quick check of each seeded change's property against the patched tree: tools/seeded_regress.sh [ids...]
# prints one line per change: DETECTED / MISSED / PATCH-DOES-NOT-APPLY
cd /verif
IDS=${@:-$(ls seeded | grep -v VERIFIED)}
for id in $IDS; do
  d=/verif/seeded/$id
  [ -f $d/patch.diff ] || continue
  prop=$(python3 -c "import json;print(json.load(open('$d/meta.json'))['property'])")
  out=$(timeout 1800 tools/mutant.sh $d/patch.diff $prop --tier quick 2>&1)
  if echo "$out" | grep -q "^VIOLATION"; then echo "DETECTED $id ($prop) $(echo "$out" | grep -m1 oracle= | sed 's/seed=.*//')";
  elif echo "$out" | grep -qi "hunk.*FAILED\|can't find file\|malformed"; then echo "PATCH-DOES-NOT-APPLY $id ($prop)";
  else echo "MISSED   $id ($prop) $(echo "$out" | tail -1 | cut -c1-100)"; fi
done
