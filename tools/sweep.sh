#!/bin/sh
# seed sweep of the quick tier (false-alarm hunting): tools/sweep.sh <first> <last>
for s in $(seq $1 $2); do
  for p in C09 C11 C12 C13 C17 C19; do
    VERIF_SEED=$s VERIF_OUT=/dev/shm/sweep_out ./check $p --tier quick 2>&1 | grep -E "VIOLATION|oracle=|detail:|tier=quick|HARNESS" | cut -c1-400
  done
done
