#!/bin/sh
# Run checks against a scratch copy of /repo with a patch applied (never touches /repo).
# usage: tools/mutant.sh <patch-file|ORIG> <prop> [more ./check args]
#   ORIG = the pinned original commit (all recorded defects present)
set -e
PATCH=$1; shift
case "$PATCH" in ORIG) ;; /*) ;; *) PATCH="$(pwd)/$PATCH";; esac
D=$(mktemp -d /dev/shm/mut.XXXXXX)
trap '[ -n "$MUT_KEEP" ] && mkdir -p "$MUT_KEEP" && cp "$D"/out/replays/*.json "$MUT_KEEP"/ 2>/dev/null; rm -rf "$D"' EXIT
if [ "$PATCH" = "ORIG" ]; then
  git -C /repo archive 35c7b2e rsome | tar -x -C "$D"
else
  git -C /repo archive HEAD rsome | tar -x -C "$D"
  # uncommitted edits of /repo's working tree are part of "the current tree"
  (cd /repo && git diff HEAD -- rsome) | (cd "$D" && patch -p1 -s) || true
  (cd "$D" && patch -p1 -s < "$PATCH")
fi
cd /verif
mkdir -p "$D/out"
VERIF_REPO="$D" VERIF_OUT="$D/out" ./check "$@"
