#!/bin/sh
# tools/run_mutants.sh [dir]  -> one line per mutant: DETECTED / MISSED (quick tier of its property)
DIR=${1:-/verif/mutants/planned}
for f in $DIR/*.patch; do
  prop=$(basename $f .patch | sed 's/.*_//')
  out=$(timeout 1800 /verif/tools/mutant.sh $f $prop --tier quick 2>&1)
  nv=$(echo "$out" | grep -c "^VIOLATION")
  first=$(echo "$out" | grep -m1 "oracle=" | sed 's/seed=.*//')
  he=$(echo "$out" | grep -c "HARNESS-ERROR")
  if [ "$nv" -gt 0 ]; then echo "DETECTED $(basename $f) violations=$nv $first"; else echo "MISSED   $(basename $f) harness_errors=$he $(echo "$out" | tail -1 | cut -c1-120)"; fi
done
