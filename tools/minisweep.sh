#!/bin/sh
# tools/minisweep.sh <prop> [first] [last] : quick tier of one property under several VERIF_SEED values (false-alarm hunting before a commit)
P=$1; A=${2:-1}; B=${3:-6}
for s in $(seq $A $B); do
  VERIF_SEED=$s VERIF_OUT=/dev/shm/minisweep_out ./check $P --tier quick 2>&1 | grep -E "VIOLATION|oracle=|detail:|tier=quick|HARNESS|UNCONFIRMED" | cut -c1-300
done
