#!/bin/sh
# Confirm a seeded change: tools/seeded_verify.sh <dir with patch.diff, demo.py> <prop> [suite]
#  1 demo passes on the current tree  2 patch applies  3 demo fails with the patch  4 (optional) pinned suite passes with the patch
#  5 quick check of <prop> against the patched scratch tree
DIR=$1; PROP=$2; SUITE=$3
D=$(mktemp -d /dev/shm/seed.XXXXXX)
trap 'rm -rf "$D"' EXIT
git -C /repo archive HEAD | tar -x -C "$D"
(cd /repo && git diff HEAD) | (cd "$D" && patch -p1 -s) || true
cd "$D"
PYTHONPATH="$D" timeout 300 /venv/bin/python "$DIR/demo.py" > "$D/demo_clean.log" 2>&1; echo "demo_on_clean_tree rc=$?"
if ! patch -p1 -s < "$DIR/patch.diff"; then echo "PATCH DOES NOT APPLY"; exit 3; fi
PYTHONPATH="$D" timeout 300 /venv/bin/python "$DIR/demo.py" > "$D/demo_patched.log" 2>&1; echo "demo_on_patched_tree rc=$?"
if [ -n "$SUITE" ]; then /verif/tools/run_suite.sh "$D" > "$D/suite.log" 2>&1; echo "suite rc=$? ($(grep -c 'rc=0' $D/suite.log) files ok)"; grep -v "rc=0" "$D/suite.log" | head -5; fi
cd /verif
mkdir -p "$D/out"
VERIF_REPO="$D" VERIF_OUT="$D/out" timeout 1500 ./check $PROP --tier quick 2>&1 | grep -E "VIOLATION|oracle=|detail:|tier=quick" | cut -c1-330 | head -12
