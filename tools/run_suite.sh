#!/bin/sh
# Runs the pinned test suite of a tree (default /repo) one file per process, in parallel; prints a summary.
# usage: tools/run_suite.sh [repo_dir] ; exit 0 iff no failures/errors
REPO=${1:-/repo}
OUT=$(mktemp -d /dev/shm/suite.XXXXXX)
cd "$REPO" || exit 2
for f in tests/test_*.py; do
  ( timeout 1500 /venv/bin/python -m pytest -q -p no:cacheprovider --timeout=900 "$f" > "$OUT/$(basename $f).log" 2>&1; echo $? > "$OUT/$(basename $f).rc" ) &
done
wait
bad=0
for f in tests/test_*.py; do
  rc=$(cat "$OUT/$(basename $f).rc")
  line=$(tail -1 "$OUT/$(basename $f).log")
  echo "$(basename $f) rc=$rc $line"
  [ "$rc" = "0" ] || { bad=1; grep -E "^(FAILED|ERROR)" "$OUT/$(basename $f).log" | head -5; }
done
rm -rf "$OUT"
exit $bad
