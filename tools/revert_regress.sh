#!/bin/sh
# Re-run, for every repaired defect, the quick check of its property against the tree with the fix reverted:
# tools/revert_regress.sh  -> one line per fix: DETECTED / MISSED / PATCH-DOES-NOT-APPLY
cd /verif
python3 - <<'PY' > /tmp/revert_list.$$
import json
for f in json.load(open('/verif/known_findings.json'))['findings']:
    if f['state'] == 'fixed':
        print(f['id'][1:], f['property'])
PY
while read n prop; do
  p=/verif/mutants/revert_fix$n.patch
  out=$(timeout 1800 tools/mutant.sh $p $prop --tier quick 2>&1)
  if echo "$out" | grep -q "^VIOLATION"; then echo "DETECTED F$n ($prop) $(echo "$out" | grep -m1 oracle= | sed 's/seed=.*//')";
  elif echo "$out" | grep -qi "hunk.*FAILED\|can't find file\|malformed\|Reversed"; then echo "PATCH-DOES-NOT-APPLY F$n ($prop)";
  else echo "MISSED   F$n ($prop) $(echo "$out" | tail -1 | cut -c1-100)"; fi
done < /tmp/revert_list.$$
rm -f /tmp/revert_list.$$
