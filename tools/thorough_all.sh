#!/bin/sh
# every thorough tier once (evidence goes to a scratch dir): tools/thorough_all.sh
for p in C13 C12 C11 C17 C09 C19; do
  VERIF_OUT=/dev/shm/thorough_out ./check $p --tier thorough 2>&1 | grep -E "VIOLATION|oracle=|detail:|tier=thorough|HARNESS|UNCONFIRMED|KNOWN" | cut -c1-400
done
