"""Generates the planned sensitivity mutants (DESIGN.md section 3) as patch files under mutants/planned/.
Each mutant is a single textual replacement in a scratch export of /repo HEAD."""
import os, subprocess, tempfile, shutil, sys

M = [
 # id, property, file, old, new, what
 ('m01', 'C09', 'rsome/lp.py', "        sup_model = self.rand_model\n        sup_model.reset()\n", "        sup_model = self.rand_model\n", 'drop sup_model.reset() in RoConstr.forall'),
 ('m02', 'C09', 'rsome/ro.py', "                if constr.support:\n                    rc_constrs = constr.le_to_rc()\n                else:\n                    rc_constrs = constr.le_to_rc(self.obj_support)", "                if constr.support and not self.obj_support:\n                    rc_constrs = constr.le_to_rc()\n                else:\n                    rc_constrs = constr.le_to_rc(self.obj_support)", 'per-constraint set ignored when a default set exists'),
 ('m03', 'C09', 'rsome/ro.py', "            else:\n                raise TypeError('Unknown type of constraints')\n\n        self.pupdate = True\n        self.dupdate = True\n", "            else:\n                raise TypeError('Unknown type of constraints')\n\n        self.dupdate = True\n", 'ro.Model.st does not invalidate the primal cache'),
 ('m05', 'C09', 'rsome/dro.py', "        self.update = True\n        return self.s.exptset(*args)", "        return self.s.exptset(*args)", 'Ambiguity.exptset does not set update'),
 ('m06', 'C09', 'rsome/dro.py', "            self.model.exp_model.reset()\n            self.model.exp_model.st(econstr)", "            self.model.exp_model.st(econstr)", 'exp_model.reset() removed in mix_support'),
 ('m07', 'C09', 'rsome/dro.py', "        self.model.pro_model.reset()\n        self.model.pro_model.st(self.pro_constr)", "        self.model.pro_model.st(self.pro_constr)", 'pro_model.reset() removed in mix_support'),
 ('m08', 'C09', 'rsome/lp.py', "            if refresh:\n                self.auxs = []\n                self.aux_constr = []\n                self.aux_bounds = []\n                self.last = self.vars[-1].first + self.vars[-1].size\n\n            more_cvx = []\n            if self.obj is not None:\n                obj_constr = (self.vars[0] - self.sign * self.obj >= 0)\n                if isinstance(obj_constr, LinConstr):", "            if refresh:\n                self.auxs = []\n                self.aux_bounds = []\n                self.last = self.vars[-1].first + self.vars[-1].size\n\n            more_cvx = []\n            if self.obj is not None:\n                obj_constr = (self.vars[0] - self.sign * self.obj >= 0)\n                if isinstance(obj_constr, LinConstr):", 'lp.Model.do_math keeps aux_constr of the previous formulation'),
 ('m11', 'C11', 'rsome/lp.py', "        if res.status == 0:\n            objval = formula.obj @ res.x\n\n            pi = ", "        if res.x is not None:\n            objval = formula.obj @ res.x\n\n            pi = ", 'default LP interface accepts any status that comes with a vector'),
 ('m13', 'C11', 'rsome/ort_solver.py', "    if status == pywraplp.Solver.OPTIMAL:", "    if status in (pywraplp.Solver.OPTIMAL, pywraplp.Solver.FEASIBLE):", 'OR-Tools interface accepts FEASIBLE'),
 ('m14', 'C11', 'rsome/ro.py', "        solution = self.rc_model.solution\n        if np.isnan(solution.objval):\n            msg = 'No solution available. '\n            msg += f'{solution.solver} solution status: {solution.status}'\n            raise RuntimeError(msg)\n", "        solution = self.rc_model.solution\n", 'ro.Model.get returns NaN instead of raising'),
 ('m15', 'C11', 'rsome/eco_solver.py', "    Glb = sp.csr_matrix((-np.ones(num_zlb),", "    Glb = sp.csr_matrix((np.ones(num_zlb),", 'ECOS lower-bound rows with the wrong sign'),
 ('m16', 'C11', 'rsome/ort_solver.py', "solver.IntVar(max(0, lb[i]), min(1, ub[i]),", "solver.IntVar(0, min(1, ub[i]),", 'OR-Tools ignores lower bounds of binaries'),
 ('m17', 'C11', 'rsome/eco_solver.py', "        Gsc.append(socone)\n        sc_dim.append(num)", "        Gsc.insert(0, socone)\n        sc_dim.append(num)", 'ECOS cone blocks stacked in reverse order of their dimensions'),
 ('m21', 'C13', 'rsome/subroutines.py', "    dc = {item: str(d1[item]) + '-' + str(d2[item])\n          for item in range(len(d1))}", "    dc = {item: str(d1[item])\n          for item in range(len(d1))}", 'comb_set returns the first partition instead of the common refinement'),
 ('m22', 'C13', 'rsome/lp.py', "            if self.event_rest and index in self.event_adapt[0]:\n                self.event_adapt[0].remove(index)\n            else:", "            if self.event_rest and index in self.event_adapt[0]:\n                pass\n            else:", 'evtadapt does not remove scenarios from the remainder event'),
 ('m23', 'C13', 'rsome/dro.py', "                index.extend(list(start + size * edict[s] +\n                                  np.arange(size, dtype=int)))", "                index.extend(list(start + size * min(edict[s], 1) +\n                                  np.arange(size, dtype=int)))", 'rule_var maps every event beyond the second to the second one'),
 ('m24', 'C13', 'rsome/lp.py', "        self.depend[ldr_indices, indices] = 1\n", "        self.depend[ldr_indices, :indices.max() + 1] = 1\n", 'DecRule.adapt marks every component up to the largest requested one'),
 ('m25', 'C13', 'rsome/lp.py', "        if any(vtypes[i] in 'BI' for i in np.array(self.indices).flatten()):\n            raise ValueError('No affine adaptation for integer variables.')\n", "", 'affine adaptation of integer decisions no longer rejected'),
 ('m26', 'C13', 'rsome/lp.py', "        if self.rand_adapt[dec_indices_flat, rand_indices_flat].any():\n            raise RuntimeError('Redefinition of adaptation is not allowed.')\n", "", 'dro: re-declaring an affine dependency no longer rejected'),
 ('m31', 'C12', 'rsome/dro.py', "        return self.sign * self.solution.objval", "        return self.solution.objval", 'dro.Model.get drops the sign of maximisation models'),
 ('m32', 'C12', 'rsome/lp.py', "            ldr_coeff[row_ind, col_ind] = self.var_coeff.get()\n", "            ldr_coeff[row_ind, col_ind] = self.var_coeff.get()[::-1]\n", 'DecRule.get returns the coefficients in reverse order'),
 ('m33', 'C12', 'rsome/lp.py', "                indices = (self.ro_first + eindex*self.size +\n                           np.arange(self.size, dtype=int))", "                indices = (self.ro_first + eindex +\n                           np.arange(self.size, dtype=int))", 'DecVar.get strides events by 1 instead of by the decision size'),
 ('m41', 'C17', 'rsome/ro.py', "                if (constr.model is not self.rc_model) or \\\n                        (constr.model.mtype != 'R'):\n                    raise ValueError('Models mismatch.')\n", "                if constr.model.mtype != 'R':\n                    raise ValueError('Models mismatch.')\n", 'ro.Model.st accepts deterministic constraints of another ro model'),
 ('m42', 'C17', 'rsome/dro.py', "    def min(self, obj):\n        \"\"\"\n        Minimize the given objective function.\n\n        Parameters\n        ----------\n        obj\n            An objective function\n\n        Notes\n        -----\n        The objective function given as an array must have the size\n        to be one.\n        \"\"\"\n\n        if self.obj is not None:\n            raise SyntaxError('Redefinition of the objective is not allowed.')\n", "    def min(self, obj):\n        \"\"\"\n        Minimize the given objective function.\n\n        Parameters\n        ----------\n        obj\n            An objective function\n\n        Notes\n        -----\n        The objective function given as an array must have the size\n        to be one.\n        \"\"\"\n", 'dro.Model.min allows redefinition of the objective'),
 ('m43', 'C17', 'rsome/ro.py', "class Model:\n    \"\"\"\n    The Model class creates an object of robust optimization models\n    \"\"\"\n\n    def __init__(self, name=None):\n\n        self.rc_model = GCPModel(mtype='R', top=self)\n        self.sup_model = GCPModel(nobj=True, mtype='S', top=self)\n\n        self.all_constr = []\n", "class Model:\n    \"\"\"\n    The Model class creates an object of robust optimization models\n    \"\"\"\n\n    all_constr = []\n\n    def __init__(self, name=None):\n\n        self.rc_model = GCPModel(mtype='R', top=self)\n        self.sup_model = GCPModel(nobj=True, mtype='S', top=self)\n", 'ro.Model.all_constr is a class attribute shared by all models'),
 ('m44', 'C17', 'rsome/dro.py', "        if self.all_constr:\n            raise SyntaxError('Ambiguity set must be specified ' +\n                              'before defining constraints.')\n", "", 'ambiguity() allowed after constraints exist'),
 ('m45', 'C17', 'rsome/lp.py', "            if self.model is not other.model:\n                raise ValueError('Models of operands mismatch.')\n\n            new_const = other.const + self.const", "            new_const = other.const + self.const", 'Affine.__add__ accepts operands of two models of the same kind'),
 ('m51', 'C19', 'rsome/ro.py', "        for constr in self.all_constr + more_roc:", "        for constr in list(set(self.all_constr + more_roc)):", 'ro.do_math iterates the constraints through a set'),
 ('m52', 'C19', 'rsome/ro.py', "        self.rc_model.reset()\n        if isinstance(self.obj, (Vars, VarSub, Affine, Convex, Real)):", "        self.rc_model.reset()\n        np.random.rand()\n        if isinstance(self.obj, (Vars, VarSub, Affine, Convex, Real)):", 'formulation consumes numpy.random state'),
 ('m53', 'C19', 'rsome/lp.py', "        elif isinstance(other, np.ndarray):\n            other = check_numeric(other)\n            new_const = other + self.const\n", "        elif isinstance(other, np.ndarray):\n            other = check_numeric(other)\n            new_const = other\n            new_const += self.const\n", 'Affine.__add__ adds into the user array in place'),
 ('m54', 'C19', 'rsome/lp.py', "        upper = other + np.zeros(self.shape)\n            upper = upper.reshape((upper.size, ))", "        upper = other if isinstance(other, np.ndarray) and other.shape == self.shape else other + np.zeros(self.shape)\n            upper = upper.reshape((upper.size, ))", 'Bounds keep a reference to the user array (aliasing, written later by def_sol-like code)'),
 ('m55', 'C19', 'rsome/socp.py', "            primal = self.do_math(obj=obj)\n\n            dual_lp = super().do_math(primal=False, refresh=False, obj=obj)\n            if len(primal.qmat) == 0:", "            primal = self.do_math(obj=obj)\n            primal.const[:] = primal.const + 0.0\n            primal.ub[primal.ub == np.inf] = 1e30\n\n            dual_lp = super().do_math(primal=False, refresh=False, obj=obj)\n            if len(primal.qmat) == 0:", 'dual formulation rewrites infinite upper bounds of the cached primal'),
]


def main():
    out = os.path.join(os.path.dirname(os.path.dirname(os.path.abspath(__file__))), 'mutants', 'planned')
    os.makedirs(out, exist_ok=True)
    d = tempfile.mkdtemp(prefix='mk.', dir='/dev/shm')
    try:
        subprocess.run('git -C /repo archive HEAD rsome | tar -x -C %s' % d, shell=True, check=True)
        subprocess.run('cd %s && git init -q . && git add -A && git -c user.email=a@b -c user.name=a commit -qm base' % d, shell=True, check=True)
        index = []
        for mid, prop, f, old, new, what in M:
            p = os.path.join(d, f)
            s = open(p).read()
            if s.count(old) != 1:
                print('SKIP %s: pattern occurs %d times' % (mid, s.count(old)))
                continue
            open(p, 'w').write(s.replace(old, new))
            diff = subprocess.run(['git', '-C', d, 'diff'], capture_output=True, text=True).stdout
            open(os.path.join(out, '%s_%s.patch' % (mid, prop)), 'w').write(diff)
            subprocess.run(['git', '-C', d, 'checkout', '-q', '--', '.'], check=True)
            index.append({'id': mid, 'property': prop, 'file': f, 'what': what})
        import json
        json.dump(index, open(os.path.join(out, 'index.json'), 'w'), indent=1)
        print('wrote', len(index), 'mutants')
    finally:
        shutil.rmtree(d)


if __name__ == '__main__':
    main()
