"""Regenerates section 8 (build log) of DESIGN.md from known_findings.json, seeded/*/meta.json, mutants/planned/index.json
and the result logs kept under /verif/mutants/results/.  Sections 0-7 (the plan written before any code) are left untouched."""
import json
import os
import re

V = os.path.dirname(os.path.dirname(os.path.abspath(__file__)))
MARK = "\n---------------------------------------------------------------------------------------------------------\n\n## 8. Build log"

FOUND_BY = {
    'F1': 'C09 L1-objective / L1-solution / L3-objective', 'F2': 'C09 L3-solve-raises; C19 cached-primal-changed:soc_solve',
    'F3': 'C09 L1/L2-objective; C11 infeasible-for-snapshot + program-edited; C19 cached-primal-changed:solve',
    'F4': 'C09 L2-declaration-raises / L2-event-raises', 'F5': 'C13 illegal-accepted',
    'F6': 'C12 labelled-value / call-vs-get / mix-readback', 'F7': 'C17 misuse-accepted',
    'F8': 'C09 L0-canonical-solve-raises / L3-solve-raises', 'F9': 'C09 L3-solve-raises (ro-gen family)',
    'F10': 'C09 L3-objective (tag shared_expr_wrapped_in_expectation)',
    'F11': 'C11 failure-claims-solution (genuine unbounded MILP, real engine)', 'F12': 'C12 slice-readback',
    'F13': 'C09 L3-objective (tag ambiguity_refined_after_formulation)',
    'F14': 'C17 misuse-accepted (cross_st_cone)', 'F15': 'C17 misuse-accepted (cross_maxof)',
    'F16': 'C13 illegal-accepted (affine_int with per-entry type string)',
    'F17': 'C09 L3-objective (tag set_attached_after_st)', 'F18': 'C17 misuse-accepted (cross_kldiv)',
    'F19': 'C09 L3-solve-raises (shared random-part expression built before a later rvar)',
    'F20': 'C13 illegal-accepted (affine_times_random: adaptation declared on a slice, product used inside E)',
}

LATER = {
    'm14': 'DETECTED after strengthening (model.get() must raise after a failure)',
    'm21': 'DETECTED after strengthening ((x1+x2)() per scenario: mix-expression-refinement)',
    'm31': 'DETECTED after strengthening (get-vs-readback)',
    'm42': 'DETECTED after strengthening (misused model drawn uniformly, misuse also after completion)',
    'm05': 'equivalent: Ambiguity.update is never reset to False on this tree, so the flag has no effect',
    'm08': 'equivalent in effect: the stale rows are exact duplicates or sit on unused hole columns; ro/dro models clear them in reset()',
    'm54': 'not observable: aliasing a user array without writing to it changes nothing; M-DET flags the first write',
}


def tables():
    k = json.load(open(os.path.join(V, 'known_findings.json')))
    frows = orows = ''
    for f in k['findings']:
        if f['state'] == 'fixed':
            what = f['what'].split(' ', 3)[3]
            frows += '| %s | %s | %s | %s | %s |\n' % (f['id'], f['property'], f['commit'], what, FOUND_BY.get(f['id'], ''))
        else:
            orows += '| %s | %s | %s | %s |\n' % (f['id'], f['property'], f['what'], ', '.join(f.get('requires_tags', [])))
    seeded = ''
    n_first = n_later = 0
    for d in sorted(os.listdir(os.path.join(V, 'seeded'))):
        mp = os.path.join(V, 'seeded', d, 'meta.json')
        if not os.path.exists(mp):
            continue
        m = json.load(open(mp))
        st = m.get('detection', {}).get('status', '')
        if st == 'detected':
            n_first += 1
        elif st:
            n_later += 1
        summ = m['summary'].replace('|', '/').replace('\n', ' ')
        seeded += '| %s | %s | %s | %s |\n' % (d, summ[:200] + ('...' if len(summ) > 200 else ''), st,
                                             m.get('detection', {}).get('by', '').replace('|', '/'))
    idx = {m['id']: m for m in json.load(open(os.path.join(V, 'mutants', 'planned', 'index.json')))}
    res = {}
    rp = os.path.join(V, 'mutants', 'results', 'planned_quick.log')
    if os.path.exists(rp):
        for ln in open(rp):
            mm = re.match(r'(DETECTED|MISSED)\s+(m\d+)_(C\d+)\.patch(.*)', ln)
            if mm:
                res[mm.group(2)] = (mm.group(1), mm.group(4).strip())
    prow = ''
    for mid in sorted(idx):
        m = idx[mid]
        st = res.get(mid, ('not run', ''))[0]
        if mid in LATER:
            st = LATER[mid]
        elif st == 'DETECTED':
            st = 'DETECTED (' + res[mid][1].split('oracle=')[-1].strip() + ')'
        prow += '| %s | %s | %s | %s |\n' % (mid, m['property'], m['what'], st)
    return frows, orows, seeded, prow, n_first, n_later


def main():
    p = os.path.join(V, 'DESIGN.md')
    s = open(p).read()
    s = s[:s.index(MARK)]
    body = open(os.path.join(V, 'tools', 'design_section8.md.in')).read()
    frows, orows, seeded, prow, n_first, n_later = tables()
    body = body.replace('@@FIXED@@', frows).replace('@@OPEN@@', orows).replace('@@SEEDED@@', seeded).replace('@@PLANNED@@', prow)
    body = body.replace('@@NFIRST@@', str(n_first)).replace('@@NLATER@@', str(n_later)).replace('@@NSEEDED@@', str(n_first + n_later))
    open(p, 'w').write(s + MARK + body)
    print('DESIGN.md section 8 rewritten: %d fixed, %d open, %d seeded' % (frows.count('\n'), orows.count('\n'), seeded.count('\n')))


if __name__ == '__main__':
    main()
